import gdb
gdb.execute("set pagination off")
gdb.execute("set non-stop on")
gdb.execute("set confirm off")
state = {'a': None}
class BpA(gdb.Breakpoint):
    def stop(self):
        if state['a'] is None:
            state['a'] = gdb.selected_thread().num
            print("[gdb] consumer A (thread %d) held after its failed try, before re-loading the position" % state['a'])
            return True   # keep A stopped
        return False
class BpM(gdb.Breakpoint):
    def stop(self):
        print("[gdb] main reached resume_marker: releasing A")
        gdb.post_event(lambda: gdb.execute("thread %d" % state['a']) or gdb.execute("continue &"))
        return False
BpA("multiqueue.rs:%s" % LINE)
BpM("resume_marker")
gdb.execute("run")
