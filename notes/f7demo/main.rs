use multiqueue2::broadcast_queue_with;
use multiqueue2::wait::BlockingWait;
use std::sync::atomic::{AtomicBool, Ordering};
use std::sync::Arc;
use std::thread;
use std::time::Duration;

#[inline(never)]
#[no_mangle]
pub extern "C" fn resume_marker() {
    std::sync::atomic::fence(Ordering::SeqCst);
}

fn main() {
    // N = 2; one stream shared by consumers A and B
    let (tx, rx) = broadcast_queue_with::<u64, _>(2, BlockingWait::with_spins(0, 0));
    let rb = rx.clone();
    let done = Arc::new(AtomicBool::new(false));
    let d2 = done.clone();
    let a = thread::spawn(move || {
        // consumer A: blocking receive on the shared stream
        let v = rx.recv();
        d2.store(true, Ordering::SeqCst);
        v
    });
    // (the debugger holds A between the failed try and the re-load of the position)
    thread::sleep(Duration::from_millis(300));
    tx.try_send(0).unwrap(); // value for position 0
    assert_eq!(rb.try_recv().unwrap(), 0); // sibling B takes it: stream position -> 1
    drop(rb); // B leaves
    tx.try_send(1).unwrap(); // value for position 1: only A can take it
    resume_marker(); // debugger lets A continue: it re-loads count = 1 and waits on (1, slot(0))
    thread::sleep(Duration::from_millis(1500));
    if done.load(Ordering::SeqCst) {
        println!("RESULT: A returned (no defect on this schedule)");
    } else {
        println!("RESULT: A is still blocked 1.5 s after value 1 was sent and only A can take it (defect)");
        // one more value wraps the ring onto slot(0): only now the sleeper's check fires
        tx.try_send(2).unwrap();
        thread::sleep(Duration::from_millis(300));
        println!("after wrapping the ring: A done = {}", done.load(Ordering::SeqCst));
    }
    drop(tx);
    println!("A got {:?}", a.join().unwrap());
}
