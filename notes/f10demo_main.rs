// F10: a sink task refused because of a *pinned* slot is never notified when the pin goes away
// through a receive that ends up Empty (two consumers on one stream, slow Clone).
extern crate futures;
use futures::executor::{spawn, Notify};
use futures::{Async, AsyncSink, Sink, Stream};
use std::cell::Cell;
use std::sync::atomic::{AtomicBool, AtomicUsize, Ordering};
use std::sync::{Arc, Barrier};
use std::thread;
use std::time::Duration;

static GATE_OPEN: AtomicBool = AtomicBool::new(false);
static IN_CLONE: AtomicBool = AtomicBool::new(false);
thread_local!(static SLOW: Cell<bool> = Cell::new(false));

#[derive(Debug)]
struct P(u64);
impl Clone for P {
    fn clone(&self) -> P {
        if SLOW.with(|s| s.get()) && self.0 == 0 {
            IN_CLONE.store(true, Ordering::SeqCst);
            while !GATE_OPEN.load(Ordering::SeqCst) { thread::yield_now(); }
        }
        P(self.0)
    }
}
struct Count(AtomicUsize);
impl Notify for Count { fn notify(&self, _id: usize) { self.0.fetch_add(1, Ordering::SeqCst); } }

fn main() {
    thread::spawn(|| { thread::sleep(Duration::from_secs(20)); println!("RESULT: watchdog"); std::process::exit(2); });
    let (tx, rx_a) = multiqueue2::broadcast_fut_queue_with::<P>(2, 0, 0);
    let rx_b = rx_a.clone(); // same stream, second consumer
    tx.try_send(P(0)).unwrap();
    tx.try_send(P(1)).unwrap(); // ring (N = 2) is full
    let a_notified = Arc::new(Count(AtomicUsize::new(0)));
    let an = a_notified.clone();
    let bar = Arc::new(Barrier::new(2));
    let bar2 = bar.clone();
    // consumer task A: pins slot 0 and stalls inside Clone
    let a = thread::spawn(move || {
        SLOW.with(|s| s.set(true));
        let mut task = spawn(rx_a);
        let r = task.poll_stream_notify(&an, 0);
        bar2.wait();
        // the receiver stays alive (dropping it would notify the producers)
        (task, format!("{:?}", r.map(|x| match x { Async::NotReady => "NotReady".to_string(), Async::Ready(v) => format!("Ready({:?})", v) })))
    });
    while !IN_CLONE.load(Ordering::SeqCst) { thread::yield_now(); }
    // consumer B (direct calls) takes both values: the stream position is now 2
    assert_eq!(rx_b.try_recv().unwrap().0, 0);
    assert_eq!(rx_b.try_recv().unwrap().0, 1);
    // sink task: wants slot 0 again, which A still pins -> refused, parks
    let sink_notified = Arc::new(Count(AtomicUsize::new(0)));
    let mut sink = spawn(tx);
    let r = sink.start_send_notify(P(2), &sink_notified, 0);
    match r { Ok(AsyncSink::NotReady(_)) => println!("sink: NotReady (slot pinned by A), task parked"), other => { println!("unexpected: {:?}", other.map(|_| ())); std::process::exit(3) } }
    let before = sink_notified.0.load(Ordering::SeqCst);
    // A finishes its clone: unpins, loses the commit, retries, finds the stream empty and parks
    GATE_OPEN.store(true, Ordering::SeqCst);
    bar.wait();
    let (_task_a_kept_alive, ra) = a.join().unwrap();
    println!("consumer task A: {}", ra);
    thread::sleep(Duration::from_millis(300));
    let after = sink_notified.0.load(Ordering::SeqCst);
    println!("sink task notifications after the pin went away: {}", after - before);
    if after == before {
        println!("RESULT: the sink task stays parked although the slot is free now (nobody will ever notify it: consumer A is parked too)");
        std::process::exit(1);
    }
    println!("RESULT: sink task was notified");
}
