extern crate multiqueue2 as multiqueue;
use multiqueue::broadcast_queue;
use std::sync::atomic::{AtomicBool, Ordering};
use std::sync::Arc;
use std::thread;
use std::time::{Duration, Instant};

// A stream added from a handle whose stream is shared with another, running consumer must deliver
// values (it starts at a position the parent held during the call) - it must not get stuck.
#[test]
fn add_stream_from_shared_parent_is_not_stuck() {
    for round in 0..200 {
        let (tx, rx) = broadcast_queue::<u64>(4);
        let rx2 = rx.clone();
        let stop = Arc::new(AtomicBool::new(false));
        let st = stop.clone();
        let prod = thread::spawn(move || {
            let mut i = 0u64;
            while !st.load(Ordering::Relaxed) {
                if tx.try_send(i).is_ok() {
                    i += 1;
                }
            }
        });
        let st = stop.clone();
        let cons = thread::spawn(move || {
            while !st.load(Ordering::Relaxed) {
                let _ = rx2.try_recv();
            }
        });
        let mut stuck = None;
        for k in 0..2000 {
            let s = rx.add_stream();
            let t0 = Instant::now();
            let mut got = None;
            while t0.elapsed() < Duration::from_secs(2) {
                if let Ok(v) = s.try_recv() {
                    got = Some(v);
                    break;
                }
            }
            if got.is_none() {
                stuck = Some(k);
                eprintln!("new stream: {}", s.debug_state());
                eprintln!("parent    : {}", rx.debug_state());
                std::mem::forget(s);
                break;
            }
        }
        stop.store(true, Ordering::Relaxed);
        if let Some(k) = stuck {
            // leak everything: the queue is wedged
            std::mem::forget(prod);
            std::mem::forget(cons);
            panic!("round {}: the stream added in iteration {} never delivered a value (2 s) while the producer kept sending", round, k);
        }
        prod.join().unwrap();
        cons.join().unwrap();
    }
}
