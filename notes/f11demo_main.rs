// F11: YieldingWait::with_spins(_, 0) never re-evaluates the wake-up condition once it starts yielding:
// a consumer that has to wait hangs forever although the value it waits for was sent long ago.
// Build as examples/f11demo.rs of the crate:  cargo run --offline --example f11demo
extern crate multiqueue2;
use multiqueue2::wait::YieldingWait;
use std::sync::mpsc;
use std::thread;
use std::time::Duration;

fn main() {
    let (tx, rx) = multiqueue2::broadcast_queue_with::<u64, _>(4, YieldingWait::with_spins(0, 0));
    let (done_tx, done_rx) = mpsc::channel();
    thread::spawn(move || {
        let v = rx.recv(); // queue is empty: has to wait
        done_tx.send(v).unwrap();
    });
    thread::sleep(Duration::from_millis(200)); // let the consumer enter Wait::wait
    tx.try_send(7).unwrap();
    match done_rx.recv_timeout(Duration::from_secs(5)) {
        Ok(v) => println!("RESULT: consumer returned {:?}", v),
        Err(_) => {
            println!("RESULT: HANG - value sent 5 s ago, consumer still inside recv()");
            std::process::exit(1);
        }
    }
}
