// N1: Stream::poll on a fresh, never-written, empty queue must return NotReady, not spin inside the call.
extern crate futures;
use futures::executor::{spawn, Notify};
use futures::{Async, Stream};
use std::sync::Arc;
use std::time::Duration;
struct Noop;
impl Notify for Noop { fn notify(&self, _id: usize) {} }
fn main() {
    std::thread::spawn(|| { std::thread::sleep(Duration::from_secs(3)); println!("RESULT: poll() on a fresh empty queue did not return within 3 s (it spins inside the call)"); std::process::exit(1); });
    for flavour in 0..2 {
        let r = if flavour == 0 {
            let (_tx, rx) = multiqueue2::mpmc_fut_queue::<u64>(4);
            let mut task = spawn(rx);
            let r = task.poll_stream_notify(&Arc::new(Noop), 0);
            std::mem::forget(_tx);
            format!("{:?}", r.map(|a| match a { Async::NotReady => "NotReady".to_string(), Async::Ready(v) => format!("Ready({:?})", v) }))
        } else {
            let (_tx, rx) = multiqueue2::broadcast_fut_queue::<u64>(4);
            let mut task = spawn(rx);
            let r = task.poll_stream_notify(&Arc::new(Noop), 0);
            std::mem::forget(_tx);
            format!("{:?}", r.map(|a| match a { Async::NotReady => "NotReady".to_string(), Async::Ready(v) => format!("Ready({:?})", v) }))
        };
        println!("flavour {} poll on fresh empty queue -> {}", flavour, r);
        assert!(r.contains("NotReady"));
    }
    println!("RESULT: NotReady as required");
}
