// F8: pure clone/drop churn of handles while a fixed set of handles keeps operating.
use std::alloc::{GlobalAlloc, Layout, System};
use std::sync::atomic::{AtomicIsize, Ordering};
struct Counting;
static LIVE: AtomicIsize = AtomicIsize::new(0);
unsafe impl GlobalAlloc for Counting {
    unsafe fn alloc(&self, l: Layout) -> *mut u8 { LIVE.fetch_add(l.size() as isize, Ordering::Relaxed); System.alloc(l) }
    unsafe fn dealloc(&self, p: *mut u8, l: Layout) { LIVE.fetch_sub(l.size() as isize, Ordering::Relaxed); System.dealloc(p, l) }
}
#[global_allocator]
static A: Counting = Counting;
fn main() {
    let (tx, rx) = multiqueue2::mpmc_queue::<u64>(8);
    let mut marks = vec![];
    for i in 0..40_000u64 {
        let r2 = rx.clone();      // handle churn: clone ...
        let t2 = tx.clone();
        drop(r2);                 // ... and drop
        drop(t2);
        tx.try_send(i).unwrap();  // the fixed handles keep operating
        assert_eq!(rx.try_recv().unwrap(), i);
        if i == 999 || i == 9_999 || i == 39_999 { marks.push(LIVE.load(Ordering::Relaxed)); }
    }
    println!("live bytes after 1k / 10k / 40k clone+drop cycles: {:?}", marks);
    let growth = marks[2] - marks[0];
    if growth > 64 * 1024 { println!("RESULT: memory held by the queue grows with the number of handle cycles (+{} bytes)", growth); std::process::exit(1); }
    println!("RESULT: bounded");
}
