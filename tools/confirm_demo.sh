#!/bin/bash
# demo part of the confirmation: fails with the change, passes without
id=$1; wt=${MUTROOT:-/tmp/mut}/$id; out=$wt/CONFIRM.log
cd $wt || exit 2
demo_cmd=$(python3 -c "import json;print(json.load(open('$wt/MUTANT/meta.json'))['demo_cmd'])")
demo_cmd=${demo_cmd#cd $wt && }
export CARGO_NET_OFFLINE=true
timeout 900 bash -c "$demo_cmd" > $wt/demo_mut.log 2>&1; rc_mut=$?
git apply -R MUTANT/patch.diff || { echo "reverse apply failed" >> $out; exit 3; }
timeout 900 bash -c "$demo_cmd" > $wt/demo_base.log 2>&1; rc_base=$?
git apply MUTANT/patch.diff
echo "DEMO: mutant_rc=$rc_mut baseline_rc=$rc_base => $([ $rc_mut -ne 0 ] && [ $rc_base -eq 0 ] && echo DEMO-CONFIRMED || echo DEMO-NOT-CONFIRMED)" >> $out
