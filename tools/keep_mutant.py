#!/usr/bin/env python3
"""keep_mutant.py <ID> [name]: after confirm_mutant/confirm_demo succeeded in /tmp/mut/<ID>, store the seeded change
under /verif/seeded/<name>/ (patch.diff, demonstration, meta.json) and record which checks fire."""
import json, os, shutil, subprocess, sys
mid = sys.argv[1]
name = sys.argv[2] if len(sys.argv) > 2 else mid
wt = '%s/%s' % (os.environ.get('MUTROOT', '/tmp/mut'), mid)
log = open(os.path.join(wt, 'CONFIRM.log')).read()
assert 'DEMO-CONFIRMED' in log or 'CONFIRMED=yes' in log, 'not confirmed: ' + log[-300:]
suite_ok = 'suite_rc=0' in log
meta = json.load(open(os.path.join(wt, 'MUTANT', 'meta.json')))
dst = '/verif/seeded/%s' % name
os.makedirs(dst, exist_ok=True)
shutil.copy(os.path.join(wt, 'MUTANT', 'patch.diff'), os.path.join(dst, 'patch.diff'))
for f in os.listdir(os.path.join(wt, 'MUTANT')):
    if f not in ('patch.diff', 'meta.json'):
        shutil.copy(os.path.join(wt, 'MUTANT', f), os.path.join(dst, f))
# which checks fire
r = subprocess.run(['/verif/tools/try_mutant.sh', os.path.join(dst, 'patch.diff')], capture_output=True, text=True)
fired = [l for l in r.stdout.split('\n') if l.startswith('FIRED:')]
viol = [l.strip()[:300] for l in r.stdout.split('\n') if 'violated:' in l]
rl = [l for l in r.stdout.split('\n') if l.startswith('RULES:')]
rules = rl[0].replace('RULES:', '').split() if rl else []
out = {
    'property': meta.get('property', mid),
    'origin': 'independent sub-agent given only the property text and a scratch worktree',
    'summary': meta.get('summary'),
    'needs_to_manifest': meta.get('needs_to_manifest'),
    'demo_cmd': meta.get('demo_cmd'),
    'what_i_ran': {
        'scratch_worktree': wt,
        'demo_with_change': 'fails (exit != 0)',
        'demo_without_change': 'passes (exit 0)',
        'existing_suite_with_change': 'passes' if suite_ok else 'see log',
        'confirm_log_tail': log.strip().split('\n')[-6:],
    },
    'agent_reported_results': meta.get('results'),
    'checks_firing': fired[0].replace('FIRED:', '').split() if fired else [],
    'rules_firing': rules,
    'sample_reports': viol[:4],
}
json.dump(out, open(os.path.join(dst, 'meta.json'), 'w'), indent=1)
print(name, out['checks_firing'], rules)
