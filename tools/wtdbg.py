#!/usr/bin/env python3
"""wtdbg.py <crate dir> [--sweep] : extract facts of a crate directory (e.g. a mutant worktree) to .work/facts-dbg.json and
print every failing rule instance with its message."""
import sys
sys.path.insert(0, '/verif/lint')
import extract, rules
from core import Facts
from engine import Ctx
p, _ = extract.extract(crate_dir=sys.argv[1], tag='dbg', out='/verif/.work/facts-dbg.json')
ctx = Ctx(Facts(p))
rules.run_all(ctx, thorough='--sweep' in sys.argv)
for e in ctx.errors:
    print('CHECK-ERROR', e)
seen = set()
for r in ctx.results:
    if not r.ok and r.key() not in seen:
        seen.add(r.key())
        print('%s [%s] %s %s\n    %s' % (r.key(), r.flavour, r.template, r.where, r.msg[:600]))
