#!/bin/bash
# usage: confirm_mutant.sh <ID>  -- my own confirmation of a seeded change in its scratch worktree /tmp/mut/<ID>
# (1) demo fails with the change, (2) demo passes without it, (3) the existing suite passes with it.
id=$1; wt=${MUTROOT:-/tmp/mut}/$id; out=$wt/CONFIRM.log
cd $wt || exit 2
demo_cmd=$(python3 -c "import json;print(json.load(open('$wt/MUTANT/meta.json'))['demo_cmd'])")
echo "demo_cmd: $demo_cmd" > $out
export CARGO_NET_OFFLINE=true
# which files are the demo (untracked or non-src changes)
git status --short >> $out
demo_cmd=${demo_cmd#cd $wt && }; timeout 900 bash -c "$demo_cmd" > $wt/demo_mut.log 2>&1; rc_mut=$?
echo "mutant_demo_rc=$rc_mut" >> $out
git apply -R MUTANT/patch.diff || { echo "reverse apply failed" >> $out; exit 3; }
timeout 900 bash -c "$demo_cmd" > $wt/demo_base.log 2>&1; rc_base=$?
echo "baseline_demo_rc=$rc_base" >> $out
git apply MUTANT/patch.diff
# suite with the change, demo files moved aside
mkdir -p $wt/.aside
for f in $(git status --short | grep '^??' | awk '{print $2}' | grep -E '^(tests|examples)/'); do mv $f $wt/.aside/; done
timeout 1500 cargo test --offline --no-fail-fast -- --test-threads 8 > $wt/suite_mut.log 2>&1; rc_suite=$?
mv $wt/.aside/* $wt/tests/ 2>/dev/null
echo "suite_rc=$rc_suite" >> $out
grep -E "^test result" $wt/suite_mut.log >> $out
grep -E "^test .* FAILED|^test .* failed" $wt/suite_mut.log | head >> $out
echo "CONFIRMED=$([ $rc_mut -ne 0 ] && [ $rc_base -eq 0 ] && echo yes || echo no) (suite_rc=$rc_suite)" >> $out
