#!/bin/bash
# usage: try_mutant.sh <patch.diff> [props...]   -- apply to /repo, run quick checks, undo
set -u
patch=$1; shift
props=${@:-C01 C02 C03 C04 C05 C06 C07 C08 C10 C11 C12 C13 C14 C15 C16 C17 C18 C19}
cd /repo && git apply "$patch" || { echo "PATCH DOES NOT APPLY"; exit 3; }
cd /verif
fired=""
for p in $props; do
  out=$(./check $p 2>&1); rc=$?
  if [ $rc -ne 0 ]; then fired="$fired $p($rc)"; echo "--- $p rc=$rc"; echo "$out" | grep -E "violated:|VIOLATION|CHECK-ERROR" | cut -c1-260 | head -6; fi
done
cd /repo && git checkout -- . && git status --short | head -3
echo "FIRED:$fired"
