#!/bin/bash
# usage: try_mutant.sh <patch.diff>   -- apply to /repo, evaluate every property's quick rule set in one run, undo
set -u
patch=$1
cd /repo && git apply "$patch" || { echo "PATCH DOES NOT APPLY"; exit 3; }
cd /verif
./check ALL 2>&1 | cut -c1-300
cd /repo && git checkout -- . && git status --short | head -3
