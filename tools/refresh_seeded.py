#!/usr/bin/env python3
"""re-evaluate every kept seeded change against the current checks and update checks_firing / rules_firing in its
meta.json.  Each change is applied to a scratch copy of /repo under /tmp (removed afterwards) and evaluated with
MQ2_REPO pointing there, so /repo is never touched and several changes are evaluated at once.
usage: refresh_seeded.py [--jobs N] [name ...]"""
import json, glob, os, shutil, subprocess, sys, tempfile
from concurrent.futures import ThreadPoolExecutor

args = sys.argv[1:]
jobs = 6
if args and args[0] == '--jobs':
    jobs = int(args[1]); args = args[2:]
names = args or [d.rstrip('/').split('/')[-1] for d in sorted(glob.glob('/verif/seeded/*/'))]


def one(iname):
    i, name = iname
    d = '/verif/seeded/%s' % name
    base = tempfile.mkdtemp(prefix='mq2seed-')
    try:
        for f in ('Cargo.toml', 'Cargo.lock'):
            shutil.copy('/repo/' + f, base)
        for sub in ('src', 'tests', 'examples', 'benches'):
            if os.path.isdir('/repo/' + sub):
                shutil.copytree('/repo/' + sub, os.path.join(base, sub))
        r = subprocess.run(['patch', '-p1', '-s', '--no-backup-if-mismatch', '-i', os.path.join(d, 'patch.diff')], cwd=base,
                           capture_output=True, text=True)
        if r.returncode != 0:
            return name, None, 'does not apply'
        env = dict(os.environ, MQ2_REPO=base, MQ2_TAG='seed%d' % (i % jobs))
        r = subprocess.run(['/verif/check', 'ALL'], capture_output=True, text=True, env=env, cwd='/verif')
        return name, r.stdout, None
    finally:
        shutil.rmtree(base, ignore_errors=True)


bad = []
with ThreadPoolExecutor(max_workers=jobs) as ex:
    for name, out, err in ex.map(one, list(enumerate(names))):
        if err:
            bad.append((name, err))
            print('%-10s %s' % (name, err))
            continue
        mp = '/verif/seeded/%s/meta.json' % name
        m = json.load(open(mp))
        fired = [l for l in out.split('\n') if l.startswith('FIRED:')]
        rl = [l for l in out.split('\n') if l.startswith('RULES:')]
        m['checks_firing'] = fired[0].replace('FIRED:', '').split() if fired else []
        m['rules_firing'] = rl[0].replace('RULES:', '').split() if rl else []
        m['sample_reports'] = [l.strip()[:300] for l in out.split('\n') if 'violated:' in l][:4]
        json.dump(m, open(mp, 'w'), indent=1)
        own = m.get('property')
        flag = '' if own in m['checks_firing'] else '   <-- OWN PROPERTY NOT FIRING'
        if flag and str(m.get('status', '')).startswith('UNDETECTED'):
            flag = '   (kept as a known miss)'
        elif flag:
            bad.append((name, 'own property silent'))
        print('%-10s own=%s fired=%s rules=%s%s' % (name, own, ' '.join(m['checks_firing']), ' '.join(m['rules_firing']), flag), flush=True)
print('PROBLEMS:', bad)
