#!/usr/bin/env python3
"""re-evaluate every kept seeded change against the current checks and update checks_firing / rules_firing in its meta.json"""
import json, glob, os, subprocess, sys
bad = []
for d in sorted(glob.glob('/verif/seeded/*/')):
    name = d.rstrip('/').split('/')[-1]
    mp = os.path.join(d, 'meta.json')
    m = json.load(open(mp))
    r = subprocess.run(['/verif/tools/try_mutant.sh', os.path.join(d, 'patch.diff')], capture_output=True, text=True)
    out = r.stdout
    if 'PATCH DOES NOT APPLY' in out:
        bad.append((name, 'does not apply'))
        continue
    fired = [l for l in out.split('\n') if l.startswith('FIRED:')]
    rl = [l for l in out.split('\n') if l.startswith('RULES:')]
    m['checks_firing'] = fired[0].replace('FIRED:', '').split() if fired else []
    m['rules_firing'] = rl[0].replace('RULES:', '').split() if rl else []
    m['sample_reports'] = [l.strip()[:300] for l in out.split('\n') if 'violated:' in l][:4]
    json.dump(m, open(mp, 'w'), indent=1)
    own = m.get('property')
    flag = '' if own in m['checks_firing'] else '   <-- OWN PROPERTY NOT FIRING'
    if flag:
        bad.append((name, 'own property silent'))
    print('%-10s own=%s fired=%s rules=%s%s' % (name, own, ' '.join(m['checks_firing']), ' '.join(m['rules_firing']), flag))
print('PROBLEMS:', bad)
