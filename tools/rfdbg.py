#!/usr/bin/env python3
"""rfdbg.py <variant-id | file.diff> : apply one self-test variant to a scratch copy, extract facts to .work/facts-dbg.json
(kept for lint/dump.py) and print every failing rule instance with its message."""
import sys, shutil
sys.path.insert(0, '/verif/lint')
import selftest, extract, rules
from core import Facts
from engine import Ctx
from variants import VARIANTS
import os
if os.path.isfile(sys.argv[1]):
    v = {'id': 'file', 'property': None, 'expect': [], 'edits': [], 'patch': os.path.abspath(sys.argv[1]), 'kind': 'refactor'}
else:
    v = [v for v in VARIANTS if v['id'] == sys.argv[1]][0]
base, ok = selftest.make_scratch(v, 77)
assert ok, 'does not apply'
p, _ = extract.extract(crate_dir=base, tag='dbg', out='/verif/.work/facts-dbg.json')
shutil.rmtree(base)
ctx = Ctx(Facts(p))
rules.run_all(ctx, thorough='--sweep' in sys.argv)
for e in ctx.errors:
    print('CHECK-ERROR', e)
seen = set()
for r in ctx.results:
    if not r.ok and r.key() not in seen:
        seen.add(r.key())
        print('%s [%s] %s %s\n    %s' % (r.key(), r.flavour, r.template, r.where, r.msg[:600]))
