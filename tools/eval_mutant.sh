#!/bin/bash
# eval_mutant.sh <root> <ID> : detection by the property's own quick check (in the mutant's worktree) + start confirmation
root=$1; id=$2
echo "=== $id ($root)"
MQ2_REPO=$root/$id /verif/check $id 2>&1 | grep -E "violated|VIOLATION|CHECK-ERROR|^OK" | cut -c1-280 | sort | uniq | head -4
(MUTROOT=$root /verif/tools/confirm_mutant.sh $id > /dev/null 2>&1 &)
