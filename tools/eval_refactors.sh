#!/bin/bash
# eval_refactors.sh <area-worktree> : apply each RF/<i>.diff in the (clean) worktree, run every rule on it, undo.
# A behaviour-preserving patch must leave every check silent.
wt=$1
cd $wt || exit 2
for d in RF/*.diff; do
  git checkout -q -- . ; 
  if ! git apply $d 2>/dev/null; then echo "$d: does not apply"; continue; fi
  out=$(MQ2_REPO=$wt /verif/check ALL 2>&1)
  fired=$(echo "$out" | grep -E "^FIRED:" | sed 's/FIRED: *//')
  rules=$(echo "$out" | grep -E "^RULES:" | sed 's/RULES: *//')
  err=$(echo "$out" | grep -E "CHECK-ERROR" | head -2 | cut -c1-200)
  echo "$d: fired=[$fired] rules=[$rules] $err"
  git checkout -q -- .
done
