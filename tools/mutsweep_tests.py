#!/usr/bin/env python3
"""mutsweep_tests.py [--jobs N]: run the repository's own test suite on every SURVIVED mutant of mutsweep.jsonl (scratch
copies under /tmp, removed afterwards): a survivor that the tests also pass is a change nothing in /verif or /repo
notices - to be read by hand (equivalent / performance only / missing rule)."""
import json, os, shutil, subprocess, sys, tempfile
from concurrent.futures import ThreadPoolExecutor
jobs = 5
if len(sys.argv) > 2 and sys.argv[1] == '--jobs':
    jobs = int(sys.argv[2])
rs = [json.loads(l) for l in open(os.environ.get('SWEEP_IN', '/verif/.work/mutsweep.jsonl'))]
sv = [r for r in rs if r['status'] == 'SURVIVED']


def one(ir):
    i, r = ir
    base = tempfile.mkdtemp(prefix='mq2st-')
    try:
        for x in ('Cargo.toml', 'Cargo.lock'):
            shutil.copy('/repo/' + x, base)
        for sub in ('src', 'tests', 'examples', 'benches'):
            if os.path.isdir('/repo/' + sub):
                shutil.copytree('/repo/' + sub, os.path.join(base, sub))
        p = os.path.join(base, 'src', r['file'])
        lines = open(p).read().split('\n')
        assert lines[r['line'] - 1].strip() == r['old']
        ind = lines[r['line'] - 1][:len(lines[r['line'] - 1]) - len(lines[r['line'] - 1].lstrip())]
        lines[r['line'] - 1] = ind + r['new']
        if r['op'] == 'stmtswap':
            nl = r['new'].split('\n')
            lines[r['line'] - 1] = nl[0]
            lines[r['line']] = ind + nl[1].strip()
        open(p, 'w').write('\n'.join(lines))
        env = dict(os.environ, CARGO_NET_OFFLINE='true', CARGO_TARGET_DIR='/tmp/mq2st-target-%d' % (i % jobs))
        try:
            pr = subprocess.run(['cargo', 'test', '--offline', '--no-fail-fast', '--', '--test-threads', '4',
                                 '--skip', 'stress_receiver_multi_task_bounded_hard', '--skip', 'stress_shared_bounded_hard'],
                                cwd=base, env=env, capture_output=True, text=True, timeout=420)
            rc = pr.returncode
            fails = [l for l in pr.stdout.split('\n') if l.startswith('test ') and ('FAILED' in l or 'failed' in l)][:4]
        except subprocess.TimeoutExpired:
            rc, fails = 'timeout', []
        return dict(r, tests=('pass' if rc == 0 else 'FAIL' if rc != 'timeout' else 'TIMEOUT'), failed=fails)
    finally:
        shutil.rmtree(base, ignore_errors=True)


with open(os.environ.get('SWEEP_OUT', '/verif/.work/mutsweep_tests.jsonl'), 'w') as fo, ThreadPoolExecutor(max_workers=jobs) as ex:
    for r in ex.map(one, list(enumerate(sv))):
        fo.write(json.dumps(r) + '\n'); fo.flush()
        print('%-7s %s:%d %-14s %-55s -> %-30s %s' % (r['tests'], r['file'], r['line'], r['op'], r['old'][:55], r['new'][:30], ' '.join(f.split()[1] for f in r['failed'][:2])), flush=True)
for i in range(jobs):
    shutil.rmtree('/tmp/mq2st-target-%d' % i, ignore_errors=True)
