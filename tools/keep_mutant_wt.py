#!/usr/bin/env python3
"""keep_mutant_wt.py <ID> <name>: like keep_mutant.py, but the checks are evaluated on the scratch worktree itself
(MQ2_REPO=<worktree>), so /repo is never touched (usable while other checks read /repo)."""
import json, os, shutil, subprocess, sys
mid, name = sys.argv[1], sys.argv[2]
wt = '%s/%s' % (os.environ.get('MUTROOT', '/tmp/mut'), mid)
log = open(os.path.join(wt, 'CONFIRM.log')).read()
assert 'CONFIRMED=yes' in log, 'not confirmed: ' + log[-300:]
meta = json.load(open(os.path.join(wt, 'MUTANT', 'meta.json')))
dst = '/verif/seeded/%s' % name
os.makedirs(dst, exist_ok=True)
for f in os.listdir(os.path.join(wt, 'MUTANT')):
    if f != 'meta.json':
        shutil.copy(os.path.join(wt, 'MUTANT', f), os.path.join(dst, f))
r = subprocess.run(['/verif/check', 'ALL'], capture_output=True, text=True, env=dict(os.environ, MQ2_REPO=wt, MQ2_TAG='keep' + mid), cwd='/verif')
fired = [l for l in r.stdout.split('\n') if l.startswith('FIRED:')]
rl = [l for l in r.stdout.split('\n') if l.startswith('RULES:')]
viol = [l.strip()[:300] for l in r.stdout.split('\n') if 'violated:' in l]
out = {
    'property': meta.get('property', mid),
    'origin': 'independent sub-agent given only the property text and a scratch worktree',
    'summary': meta.get('summary'), 'needs_to_manifest': meta.get('needs_to_manifest'), 'demo_cmd': meta.get('demo_cmd'),
    'what_i_ran': {'scratch_worktree': wt, 'demo_with_change': 'fails (exit != 0)', 'demo_without_change': 'passes (exit 0)',
                   'existing_suite_with_change': 'passes' if 'suite_rc=0' in log else 'see log', 'confirm_log_tail': log.strip().split('\n')[-6:]},
    'agent_reported_results': meta.get('results'),
    'checks_firing': fired[0].replace('FIRED:', '').split() if fired else [],
    'rules_firing': rl[0].replace('RULES:', '').split() if rl else [],
    'sample_reports': viol[:4],
}
json.dump(out, open(os.path.join(dst, 'meta.json'), 'w'), indent=1)
print(name, out['checks_firing'], out['rules_firing'])
