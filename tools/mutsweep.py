#!/usr/bin/env python3
"""mutsweep.py [--jobs N] [--files a.rs,b.rs] [--ops del,ord,cmp,const,bool] : mechanical one-line mutants of /repo/src
(statement deletion, weaker memory ordering, flipped comparison, off-by-one constant, flipped boolean), each applied to a
scratch copy under /tmp and evaluated with `check ALL` (MQ2_REPO).  Prints, per mutant, which property checks fire;
the survivors (compiles, nothing fires) are candidates for missing rules and need reading - many are equivalent or
only change performance.  Development aid: not registered in MANIFEST.json."""
import json, os, re, shutil, subprocess, sys, tempfile
from concurrent.futures import ThreadPoolExecutor

args = sys.argv[1:]
jobs, files, ops, out = 6, None, None, '/verif/.work/mutsweep.jsonl'
only_from = None
while args:
    if args[0] == '--jobs': jobs = int(args[1]); args = args[2:]
    elif args[0] == '--files': files = args[1].split(','); args = args[2:]
    elif args[0] == '--ops': ops = set(args[1].split(',')); args = args[2:]
    elif args[0] == '--out': out = args[1]; args = args[2:]
    elif args[0] == '--from': only_from = args[1]; args = args[2:]
    else: args = args[1:]
files = files or ['multiqueue.rs', 'read_cursor.rs', 'countedindex.rs', 'memory.rs', 'wait.rs', 'atomicsignal.rs', 'alloc.rs']
ops = ops or {'del', 'ord', 'cmp', 'const', 'bool'}   # further operators: argswap, stmtswap


def regions_to_skip(lines):
    skip = set()
    depth_start = None
    for i, l in enumerate(lines):
        if re.match(r'\s*#\[cfg\(test\)\]', l) or re.match(r'\s*mod tests?\b', l):
            depth_start = i
        if depth_start is not None:
            skip.add(i)
    # Debug impls
    in_dbg, brace = False, 0
    for i, l in enumerate(lines):
        if re.search(r'impl.*fmt::Debug for', l):
            in_dbg, brace = True, 0
        if in_dbg:
            skip.add(i)
            brace += l.count('{') - l.count('}')
            if brace <= 0 and '{' in ''.join(lines[max(0, i - 30):i + 1]):
                if brace == 0 and l.strip() == '}':
                    in_dbg = False
    return skip


def mutants():
    for f in files:
        path = '/repo/src/' + f
        lines = open(path).read().split('\n')
        skip = regions_to_skip(lines)
        for i, l in enumerate(lines):
            s = l.strip()
            if i in skip or not s or s.startswith('//') or s.startswith('#[') or s.startswith('use ') or s.startswith('extern '):
                continue
            code = l.split('//')[0]
            if 'del' in ops and re.match(r'^\s+[A-Za-z_(*&:<].*;\s*$', code) and not re.match(r'^\s*(let|return|pub|const|static|type|fn|use|break|continue)\b', code) \
                    and code.count('(') == code.count(')') and code.count('{') == code.count('}'):
                yield (f, i, 'del', l, re.sub(r'\S.*$', '{}', l, count=1) if False else re.match(r'^\s*', l).group(0) + ';')
            if 'ord' in ops:
                for m in re.finditer(r'\b(Ordering::)?(SeqCst|AcqRel|Acquire|Release)\b', code):
                    if re.search(r'fence\(', code) and False:
                        pass
                    yield (f, i, 'ord:%s@%d' % (m.group(2), m.start()), l, l[:m.start()] + (m.group(1) or '') + 'Relaxed' + l[m.end():])
            if 'cmp' in ops:
                for m in re.finditer(r'(?<![=!<>-])(==|!=|<=|>=|<|>)(?![=>])', code):
                    op = m.group(1)
                    if op in ('<', '>') and (re.search(r'[A-Za-z_>]\s*$', code[:m.start()]) and re.search(r'^\s*[A-Za-z_&\'(*\[]', code[m.end():]) and (' ' not in code[max(0, m.start() - 1):m.start()] or ' ' not in code[m.end():m.end() + 1])):
                        continue   # generics
                    new = {'==': '!=', '!=': '==', '<=': '<', '>=': '>', '<': '<=', '>': '>='}[op]
                    yield (f, i, 'cmp:%s@%d' % (op, m.start()), l, l[:m.start()] + new + l[m.end():])
            if 'const' in ops:
                for m in re.finditer(r'([+-]) 1\b(?!\.)', code):
                    yield (f, i, 'const:%s1@%d' % (m.group(1), m.start()), l, l[:m.start()] + m.group(1) + ' 2' + l[m.end():])
                for m in re.finditer(r'([+-]) 1\b(?!\.)', code):
                    yield (f, i, 'const0:%s1@%d' % (m.group(1), m.start()), l, l[:m.start()] + m.group(1) + ' 0' + l[m.end():])
            if 'argswap' in ops:
                # f(a, b) -> f(b, a) for two plain arguments (compiles only when they have the same type)
                for m in re.finditer(r'\b([A-Za-z_][\w:.]*)\(([^(),]+), ([^(),]+)\)', code):
                    a_, b_ = m.group(2).strip(), m.group(3).strip()
                    if a_ != b_ and not m.group(1).endswith(('assert_eq', 'format', 'println')):
                        yield (f, i, 'argswap@%d' % m.start(), l, l[:m.start(2)] + b_ + ', ' + a_ + l[m.end(3):])
            if 'stmtswap' in ops and i + 1 < len(lines):
                nx = lines[i + 1]
                simple = lambda z: bool(re.match(r'^\s+[A-Za-z_(*&:<].*;\s*$', z.split('//')[0])) and z.count('(') == z.count(')') and z.count('{') == z.count('}') \
                    and not re.match(r'^\s*(return|break|continue|use|pub|fn|const|static|type)\b', z)
                if simple(l) and simple(nx) and (len(l) - len(l.lstrip())) == (len(nx) - len(nx.lstrip())) and (i + 1) not in skip:
                    yield (f, i, 'stmtswap', l, nx + '\n' + l, True)
            if 'bool' in ops:
                for m in re.finditer(r'&&|\|\|', code):
                    yield (f, i, 'bool:%s@%d' % (m.group(0), m.start()), l, l[:m.start()] + ('||' if m.group(0) == '&&' else '&&') + l[m.end():])
                for m in re.finditer(r'\b(true|false)\b', code):
                    yield (f, i, 'bool:%s@%d' % (m.group(0), m.start()), l, l[:m.start()] + ('false' if m.group(0) == 'true' else 'true') + l[m.end():])
                for m in re.finditer(r'(?<![A-Za-z_0-9)\]])!(?=[A-Za-z_(])(?!\()', code):
                    if re.match(r'!\w+!', code[m.start():]) or re.search(r'\w$', code[:m.start()]):
                        continue
                    yield (f, i, 'bool:not@%d' % m.start(), l, l[:m.start()] + l[m.end():])


def one(im):
    idx, mm = im
    (f, i, op, old, new) = mm[:5]
    two = len(mm) > 5
    base = tempfile.mkdtemp(prefix='mq2sweep-')
    try:
        for x in ('Cargo.toml', 'Cargo.lock'):
            shutil.copy('/repo/' + x, base)
        shutil.copytree('/repo/src', os.path.join(base, 'src'))
        p = os.path.join(base, 'src', f)
        lines = open(p).read().split('\n')
        assert lines[i] == old
        lines[i] = new
        if two:
            del lines[i + 1]
        open(p, 'w').write('\n'.join(lines))
        env = dict(os.environ, MQ2_REPO=base, MQ2_TAG='sweep%d' % (idx % jobs))
        r = subprocess.run(['/verif/check', 'ALL'], capture_output=True, text=True, env=env, cwd='/verif')
        o = r.stdout + r.stderr
        if 'does not compile' in o or 'ExtractError' in o or 'could not compile' in o:
            st, fired, rules = 'nocompile', [], []
        else:
            fl = [l for l in o.split('\n') if l.startswith('FIRED:')]
            rl = [l for l in o.split('\n') if l.startswith('RULES:')]
            fired = fl[0].replace('FIRED:', '').split() if fl else []
            rules = rl[0].replace('RULES:', '').split() if rl else []
            err = 'CHECK-ERROR' in o
            st = 'fired' if fired else ('error' if err else 'SURVIVED')
        return {'file': f, 'line': i + 1, 'op': op, 'old': old.strip(), 'new': new.strip(), 'status': st, 'fired': fired, 'rules': rules,
                'tail': o[-300:] if st in ('error',) else ''}
    finally:
        shutil.rmtree(base, ignore_errors=True)


ms = list(mutants())
if only_from:
    keep = {(r_['file'], r_['line'], r_['op']) for r_ in map(json.loads, open(only_from)) if r_.get('tests', 'pass') == 'pass'}
    ms = [m_ for m_ in ms if (m_[0], m_[1] + 1, m_[2]) in keep]
print('mutants:', len(ms), flush=True)
with open(out, 'w') as fo, ThreadPoolExecutor(max_workers=jobs) as ex:
    for r in ex.map(one, list(enumerate(ms))):
        fo.write(json.dumps(r) + '\n'); fo.flush()
        print('%-9s %s:%d %-14s %-60s -> %s   [%s]' % (r['status'], r['file'], r['line'], r['op'], r['old'][:60], r['new'][:40], ' '.join(r['rules'][:6])), flush=True)
