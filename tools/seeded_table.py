#!/usr/bin/env python3
"""regenerate the table of seeded changes in DESIGN.md (section 12.7) from seeded/*/meta.json"""
import json, glob, os, re
rows = []
for f in sorted(glob.glob('/verif/seeded/*/meta.json')):
    m = json.load(open(f))
    name = f.split('/')[-2]
    summ = (m.get('summary') or '').replace('\n', ' ').replace('|', '/')
    summ = summ[:200] + ('…' if len(summ) > 200 else '')
    rows.append('| `%s` | %s | %s | %s | %s |' % (name, m.get('property'), summ, ' '.join(re.sub(r'\(\d\)', '', c) for c in m.get('checks_firing', [])) or '**none**', ' '.join(m.get('rules_firing', []))))
txt = '### 12.7 Seeded changes (independent sub-agents) and the checks / rules that report them\n\n' \
      'All of them compile, pass the existing 94 tests, and were confirmed by me in their scratch worktree (demo fails with the change, passes without).\n\n' \
      '| seeded/ | breaks | change | checks that report it (quick tier) | rules |\n|---|---|---|---|---|\n' + '\n'.join(rows) + '\n'
p = '/verif/DESIGN.md'
s = open(p).read()
if '### 12.7 Seeded changes' in s:
    s = s[:s.index('### 12.7 Seeded changes')] + txt + s[s.index('## 11. Manifest and evidence plan'):]
else:
    s = s.replace('## 11. Manifest and evidence plan', txt + '\n## 11. Manifest and evidence plan')
open(p, 'w').write(s)
print(len(rows), 'rows')
