// mq2facts: rustc_private driver that dumps the type-checked program (MIR of every body,
// ADT table, impl table) of crate `multiqueue2` (or $MQ2_CRATE) as one JSON fact file.
// Used as RUSTC_WORKSPACE_WRAPPER under `cargo +nightly check`.
//
// Output: $MQ2_FACTS (one write per process). Nonce: $MQ2_NONCE copied into the file.
#![feature(rustc_private)]
#![feature(box_patterns)]
extern crate rustc_abi;
extern crate rustc_driver;
extern crate rustc_hir;
extern crate rustc_interface;
extern crate rustc_middle;
extern crate rustc_span;

use rustc_driver::Compilation;
use rustc_hir::def::DefKind;
use rustc_middle::mir::{
    self, AggregateKind, Body, Operand, Place, ProjectionElem, Rvalue, StatementKind,
    TerminatorKind,
};
use rustc_middle::ty::print::with_no_trimmed_paths;
use rustc_middle::ty::{self, Ty, TyCtxt};
use rustc_span::def_id::{DefId, LOCAL_CRATE};
use rustc_span::Span;
use std::fmt::Write;

fn esc(s: &str) -> String {
    let mut o = String::with_capacity(s.len() + 2);
    o.push('"');
    for c in s.chars() {
        match c {
            '"' => o.push_str("\\\""),
            '\\' => o.push_str("\\\\"),
            '\n' => o.push_str("\\n"),
            '\r' => o.push_str("\\r"),
            '\t' => o.push_str("\\t"),
            c if (c as u32) < 0x20 => {
                let _ = write!(o, "\\u{:04x}", c as u32);
            }
            c => o.push(c),
        }
    }
    o.push('"');
    o
}

fn obj(kv: Vec<(&str, String)>) -> String {
    let mut o = String::from("{");
    let mut first = true;
    for (k, v) in kv {
        if !first {
            o.push(',');
        }
        first = false;
        o.push_str(&esc(k));
        o.push(':');
        o.push_str(&v);
    }
    o.push('}');
    o
}

fn arr(v: Vec<String>) -> String {
    format!("[{}]", v.join(","))
}

fn jbool(b: bool) -> String {
    if b { "true".into() } else { "false".into() }
}

fn opt_s(s: Option<String>) -> String {
    match s {
        Some(s) => esc(&s),
        None => "null".into(),
    }
}

struct Cx<'tcx> {
    tcx: TyCtxt<'tcx>,
    /// non-local generic helpers (Option / Result combinators ...) called from the crate whose MIR is exported too,
    /// so that the analysis sees through `x.map(|v| ..)` exactly as through the equivalent `match`
    extern_wanted: std::cell::RefCell<Vec<DefId>>,
}

/// std helpers whose bodies are exported (they only move values around and call the closure they are given)
fn extern_whitelisted(path: &str) -> bool {
    const PREFIXES: [&str; 4] = ["core::option::Option::<T>::", "std::option::Option::<T>::", "core::result::Result::<T, E>::", "std::result::Result::<T, E>::"];
    const METHODS: [&str; 36] = [
        "unwrap", "expect", "map", "map_err", "map_or", "map_or_else", "ok", "err", "ok_or", "ok_or_else", "and_then", "or_else", "and", "or",
        "unwrap_or", "unwrap_or_else", "unwrap_or_default", "is_some", "is_none", "is_ok", "is_err", "is_some_and", "is_ok_and",
        "is_err_and", "is_none_or", "filter", "then", "then_some", "as_ref", "as_mut", "copied", "cloned", "take", "inspect",
        "inspect_err", "unwrap_unchecked",
    ];
    for p in PREFIXES.iter() {
        if let Some(rest) = path.strip_prefix(p) {
            return METHODS.iter().any(|m| *m == rest);
        }
    }
    path == "core::bool::<impl bool>::then" || path == "core::bool::<impl bool>::then_some"
        || path == "std::bool::<impl bool>::then" || path == "std::bool::<impl bool>::then_some"
}

impl<'tcx> Cx<'tcx> {
    fn path(&self, did: DefId) -> String {
        with_no_trimmed_paths!(self.tcx.def_path_str(did))
    }

    fn ty_s(&self, t: Ty<'tcx>) -> String {
        with_no_trimmed_paths!(t.to_string())
    }

    fn loc(&self, sp: Span) -> (String, usize) {
        let sm = self.tcx.sess.source_map();
        let sp = sp.source_callsite();
        let lo = sm.lookup_char_pos(sp.lo());
        let name = match &lo.file.name {
            rustc_span::FileName::Real(r) => match r.local_path() {
                Some(p) => p.to_string_lossy().to_string(),
                None => format!("{:?}", lo.file.name),
            },
            other => format!("{:?}", other),
        };
        (name, lo.line)
    }

    fn ty_adt(&self, t: Ty<'tcx>) -> Option<String> {
        match t.kind() {
            ty::Adt(ad, _) => Some(self.path(ad.did())),
            _ => None,
        }
    }

    /// Structured description of a type (one level of structure + string).
    fn ty_j(&self, t: Ty<'tcx>) -> String {
        let (kind, inner): (&str, Option<Ty<'tcx>>) = match t.kind() {
            ty::Ref(_, i, _) => ("ref", Some(*i)),
            ty::RawPtr(i, _) => ("ptr", Some(*i)),
            ty::Adt(..) => ("adt", None),
            ty::Param(_) => ("param", None),
            ty::Closure(..) => ("closure", None),
            ty::Tuple(_) => ("tuple", None),
            ty::FnDef(..) => ("fndef", None),
            ty::FnPtr(..) => ("fnptr", None),
            ty::Dynamic(..) => ("dyn", None),
            ty::Bool => ("bool", None),
            ty::Int(_) | ty::Uint(_) => ("int", None),
            _ => ("other", None),
        };
        let mut kv = vec![("s", esc(&self.ty_s(t))), ("k", esc(kind))];
        if let Some(a) = self.ty_adt(t) {
            kv.push(("adt", esc(&a)));
            if let ty::Adt(_, args) = t.kind() {
                let v: Vec<String> = args.iter().map(|a| esc(&with_no_trimmed_paths!(a.to_string()))).collect();
                kv.push(("args", arr(v)));
            }
        }
        if let ty::Closure(did, _) = t.kind() {
            kv.push(("closure", esc(&self.path(*did))));
        }
        if let ty::FnDef(did, _) = t.kind() {
            kv.push(("fndef", esc(&self.path(*did))));
        }
        if let Some(i) = inner {
            // pointee: one more level
            let mut ikv = vec![("s", esc(&self.ty_s(i)))];
            if let Some(a) = self.ty_adt(i) {
                ikv.push(("adt", esc(&a)));
            }
            if let ty::Closure(did, _) = i.kind() {
                ikv.push(("closure", esc(&self.path(*did))));
            }
            if let ty::FnDef(did, _) = i.kind() {
                ikv.push(("fndef", esc(&self.path(*did))));
            }
            if let ty::Dynamic(..) = i.kind() {
                ikv.push(("k", esc("dyn")));
            }
            if let ty::Param(_) = i.kind() {
                ikv.push(("k", esc("param")));
            }
            kv.push(("inner", obj(ikv)));
        }
        obj(kv)
    }

    /// The destructors of this crate that dropping a value of type `t` runs, in execution order: the type's own
    /// `Drop::drop` first, then those of its fields.  `proj` is the path from the dropped place to the value the
    /// destructor gets (same encoding as place projections; `{"opaque":true}` where the value sits behind a
    /// foreign container such as Vec / Box / Arc), `maybe` says that it only runs for some values (enum variant,
    /// container contents, last Arc).
    fn drop_glue(&self, t: Ty<'tcx>, proj: &mut Vec<String>, maybe: bool, depth: usize, out: &mut Vec<String>) {
        let tcx = self.tcx;
        if depth > 5 || out.len() > 24 {
            return;
        }
        match t.kind() {
            ty::Adt(ad, args) => {
                if ad.is_manually_drop() || ad.is_union() {
                    return;
                }
                let mut foreign_dtor = false;
                if let Some(d) = tcx.adt_destructor(ad.did()) {
                    if d.did.is_local() {
                        out.push(obj(vec![
                            ("fn", esc(&self.path(d.did))),
                            ("adt", esc(&self.path(ad.did()))),
                            ("proj", arr(proj.clone())),
                            ("maybe", jbool(maybe)),
                        ]));
                    } else {
                        foreign_dtor = true;
                    }
                }
                if !ad.did().is_local() && (foreign_dtor || ad.is_box() || !ad.variants().iter().all(|v| v.fields.iter().all(|f| f.vis.is_public()))) {
                    // a foreign owning container (Vec, Box, Arc, Mutex, ..): whatever it holds may be dropped with it;
                    // guards, iterators and other borrowing types own nothing
                    let p = self.path(ad.did());
                    let last = p.rsplit("::").next().unwrap_or("");
                    const OWNING: &[&str] = &["Box", "Vec", "VecDeque", "Arc", "Rc", "Mutex", "RwLock", "Cell", "RefCell", "UnsafeCell",
                        "SmallVec", "Pin", "PoisonError", "CachePadded", "LinkedList", "BinaryHeap"];
                    if !OWNING.contains(&last) {
                        return;
                    }
                    for a in args.iter() {
                        if let Some(at) = a.as_type() {
                            proj.push(obj(vec![("opaque", jbool(true)), ("via", esc(&p))]));
                            self.drop_glue(at, proj, true, depth + 1, out);
                            proj.pop();
                        }
                    }
                    return;
                }
                let is_enum = ad.is_enum();
                for (vi, var) in ad.variants().iter_enumerated() {
                    for (fi, f) in var.fields.iter_enumerated() {
                        let fty = f.ty(tcx, args);
                        let n0 = proj.len();
                        if is_enum {
                            let dv = ad.discriminant_for_variant(tcx, vi).val;
                            proj.push(obj(vec![("downcast", esc(&var.name.to_string())), ("dv", esc(&format!("{}", dv)))]));
                        }
                        let mut kv = vec![("i", format!("{}", fi.as_usize()))];
                        kv.push(("adt", esc(&self.path(ad.did()))));
                        kv.push(("f", esc(&f.name.to_string())));
                        if is_enum {
                            kv.push(("v", esc(&var.name.to_string())));
                        }
                        kv.push(("ty", esc(&self.ty_s(fty))));
                        proj.push(obj(kv));
                        self.drop_glue(fty, proj, maybe || is_enum, depth + 1, out);
                        proj.truncate(n0);
                    }
                }
            }
            ty::Tuple(ts) => {
                for (i, et) in ts.iter().enumerate() {
                    proj.push(obj(vec![("i", format!("{}", i)), ("tuple", jbool(true)), ("ty", esc(&self.ty_s(et)))]));
                    self.drop_glue(et, proj, maybe, depth + 1, out);
                    proj.pop();
                }
            }
            ty::Array(et, _) | ty::Slice(et) => {
                proj.push(obj(vec![("opaque", jbool(true))]));
                self.drop_glue(*et, proj, true, depth + 1, out);
                proj.pop();
            }
            _ => {}
        }
    }

    fn place_j(&self, body: &Body<'tcx>, p: &Place<'tcx>) -> String {
        let tcx = self.tcx;
        let mut pty = mir::PlaceTy::from_ty(body.local_decls[p.local].ty);
        let mut projs = vec![];
        for elem in p.projection.iter() {
            let j = match elem {
                ProjectionElem::Deref => esc("*"),
                ProjectionElem::Field(f, fty) => {
                    let mut kv = vec![("i", format!("{}", f.as_usize()))];
                    match pty.ty.kind() {
                        ty::Adt(ad, _) => {
                            let v = pty.variant_index.unwrap_or(rustc_abi::VariantIdx::from_u32(0));
                            let var = ad.variant(v);
                            kv.push(("adt", esc(&self.path(ad.did()))));
                            kv.push(("f", esc(&var.fields[f].name.to_string())));
                            if ad.is_enum() {
                                kv.push(("v", esc(&var.name.to_string())));
                            }
                        }
                        ty::Closure(did, _) => {
                            kv.push(("closure", esc(&self.path(*did))));
                        }
                        ty::Tuple(_) => {
                            kv.push(("tuple", jbool(true)));
                        }
                        _ => {}
                    }
                    kv.push(("ty", esc(&self.ty_s(fty))));
                    obj(kv)
                }
                ProjectionElem::Index(l) => obj(vec![("idx", format!("{}", l.as_usize()))]),
                ProjectionElem::ConstantIndex { offset, .. } => {
                    obj(vec![("cidx", format!("{}", offset))])
                }
                ProjectionElem::Subslice { .. } => obj(vec![("subslice", jbool(true))]),
                ProjectionElem::Downcast(name, vi) => {
                    let n = match name {
                        Some(s) => s.to_string(),
                        None => match pty.ty.kind() {
                            ty::Adt(ad, _) => ad.variant(vi).name.to_string(),
                            _ => format!("#{}", vi.as_u32()),
                        },
                    };
                    obj(vec![("downcast", esc(&n))])
                }
                _ => obj(vec![("opaque", jbool(true))]),
            };
            projs.push(j);
            pty = pty.projection_ty(tcx, elem);
        }
        obj(vec![
            ("l", format!("{}", p.local.as_usize())),
            ("p", arr(projs)),
            ("ty", esc(&self.ty_s(pty.ty))),
        ])
    }

    fn const_j(&self, owner: DefId, c: &mir::ConstOperand<'tcx>) -> String {
        let tcx = self.tcx;
        let env = ty::TypingEnv::post_analysis(tcx, owner);
        let cty = c.const_.ty();
        let mut kv = vec![("k", esc("const")), ("ty", esc(&self.ty_s(cty)))];
        match cty.kind() {
            ty::FnDef(did, args) => {
                kv.push(("fn", esc(&self.path(*did))));
                let v: Vec<String> = args.iter().map(|a| esc(&with_no_trimmed_paths!(a.to_string()))).collect();
                kv.push(("generics", arr(v)));
            }
            _ => {
                // scalar evaluation (ints, bools, fieldless enums such as Ordering)
                let is_scalar_like = matches!(cty.kind(), ty::Bool | ty::Int(_) | ty::Uint(_) | ty::Char)
                    || matches!(cty.kind(), ty::Adt(ad, _) if ad.is_enum() && ad.is_payloadfree());
                if is_scalar_like {
                    if let Some(si) = c.const_.try_eval_scalar_int(tcx, env) {
                        let bits = si.to_bits_unchecked();
                        kv.push(("v", esc(&format!("{}", bits))));
                        if let ty::Adt(ad, _) = cty.kind() {
                            kv.push(("adt", esc(&self.path(ad.did()))));
                            // map discriminant value to variant
                            for (vi, d) in ad.discriminants(tcx) {
                                if d.val == bits {
                                    kv.push(("enumv", esc(&ad.variant(vi).name.to_string())));
                                }
                            }
                        }
                    }
                }
                if let ty::Adt(ad, _) = cty.kind() {
                    if !kv.iter().any(|(k, _)| *k == "adt") {
                        kv.push(("adt", esc(&self.path(ad.did()))));
                    }
                }
                // `<RW as Trait>::CONST` in a generic function: name the constant, the analysis substitutes the impl's value
                if let mir::Const::Unevaluated(uv, _) = c.const_ {
                    if uv.promoted.is_none() && matches!(tcx.def_kind(uv.def), DefKind::AssocConst { .. }) {
                        if let Some(tr) = tcx.trait_of_assoc(uv.def) {
                            kv.push(("assoc_const", esc(&tcx.item_name(uv.def).to_string())));
                            kv.push(("assoc_trait", esc(&self.path(tr))));
                        }
                    }
                }
                // `&Enum::UnitVariant` promoted out of a (generic) function: read the variant off the promoted body
                if let mir::Const::Unevaluated(uv, _) = c.const_ {
                    if let (Some(pidx), ty::Ref(_, inner, _)) = (uv.promoted, cty.kind()) {
                        if let ty::Adt(ad, _) = inner.kind() {
                            if ad.is_enum() && ad.is_payloadfree() {
                                let proms = tcx.promoted_mir(uv.def);
                                if let Some(pb) = proms.get(pidx) {
                                    let mut found: Option<(String, u128)> = None;
                                    let mut n_aggs = 0;
                                    for bbd in pb.basic_blocks.iter() {
                                        for st in &bbd.statements {
                                            if let StatementKind::Assign(box (_, Rvalue::Aggregate(box mir::AggregateKind::Adt(adid, vidx, _, _, _), ops))) = &st.kind {
                                                if *adid == ad.did() && ops.is_empty() {
                                                    n_aggs += 1;
                                                    let dv = ad.discriminant_for_variant(tcx, *vidx).val;
                                                    found = Some((ad.variant(*vidx).name.to_string(), dv));
                                                }
                                            }
                                        }
                                    }
                                    if n_aggs == 1 {
                                        if let Some((name, dv)) = found {
                                            kv.push(("ref_enumv", esc(&name)));
                                            kv.push(("ref_v", esc(&format!("{}", dv))));
                                            kv.push(("ref_adt", esc(&self.path(ad.did()))));
                                        }
                                    }
                                }
                            }
                        }
                    }
                }
                kv.push(("dbg", esc(&format!("{:?}", c.const_).chars().take(120).collect::<String>())));
            }
        }
        obj(kv)
    }

    fn op_j(&self, owner: DefId, body: &Body<'tcx>, o: &Operand<'tcx>) -> String {
        match o {
            Operand::Copy(p) => obj(vec![("k", esc("copy")), ("pl", self.place_j(body, p))]),
            Operand::Move(p) => obj(vec![("k", esc("move")), ("pl", self.place_j(body, p))]),
            Operand::Constant(c) => self.const_j(owner, c),
            #[allow(unreachable_patterns)]
            _ => obj(vec![("k", esc("otherop")), ("dbg", esc(&format!("{:?}", o)))]),
        }
    }

    fn rv_j(&self, owner: DefId, body: &Body<'tcx>, rv: &Rvalue<'tcx>) -> String {
        let tcx = self.tcx;
        match rv {
            Rvalue::Use(o, _) => obj(vec![("k", esc("use")), ("op", self.op_j(owner, body, o))]),
            Rvalue::CopyForDeref(p) => obj(vec![
                ("k", esc("use")),
                ("op", obj(vec![("k", esc("copy")), ("pl", self.place_j(body, p))])),
            ]),
            Rvalue::Ref(_, bk, p) => obj(vec![
                ("k", esc("ref")),
                ("mut", jbool(matches!(bk, mir::BorrowKind::Mut { .. }))),
                ("pl", self.place_j(body, p)),
            ]),
            Rvalue::RawPtr(k, p) => obj(vec![
                ("k", esc("rawptr")),
                ("mut", jbool(format!("{:?}", k).contains("Mut"))),
                ("pl", self.place_j(body, p)),
            ]),
            Rvalue::Cast(ck, o, t) => {
                let from = o.ty(&body.local_decls, tcx);
                obj(vec![
                    ("k", esc("cast")),
                    ("ck", esc(&format!("{:?}", ck))),
                    ("op", self.op_j(owner, body, o)),
                    ("to", self.ty_j(*t)),
                    ("from", self.ty_j(from)),
                ])
            }
            Rvalue::BinaryOp(op, box (a, b)) => obj(vec![
                ("k", esc("bin")),
                ("op", esc(&format!("{:?}", op))),
                ("a", self.op_j(owner, body, a)),
                ("b", self.op_j(owner, body, b)),
            ]),
            Rvalue::UnaryOp(op, a) => obj(vec![
                ("k", esc("un")),
                ("op", esc(&format!("{:?}", op))),
                ("a", self.op_j(owner, body, a)),
            ]),
            Rvalue::Discriminant(p) => {
                obj(vec![("k", esc("discr")), ("pl", self.place_j(body, p))])
            }
            Rvalue::Aggregate(box kind, ops) => {
                let opsj: Vec<String> = ops.iter().map(|o| self.op_j(owner, body, o)).collect();
                let mut kv = vec![("k", esc("agg"))];
                match kind {
                    AggregateKind::Adt(adid, vidx, _, _, active) => {
                        let adt = tcx.adt_def(*adid);
                        let var = adt.variant(*vidx);
                        kv.push(("ak", esc("adt")));
                        kv.push(("adt", esc(&self.path(*adid))));
                        kv.push(("variant", esc(&var.name.to_string())));
                        kv.push(("vidx", format!("{}", vidx.as_u32())));
                        if adt.is_enum() {
                            let d = adt.discriminant_for_variant(tcx, *vidx);
                            kv.push(("discr", esc(&format!("{}", d.val))));
                        }
                        let names: Vec<String> = if let Some(a) = active {
                            vec![esc(&var.fields[*a].name.to_string())]
                        } else {
                            var.fields.iter().map(|f| esc(&f.name.to_string())).collect()
                        };
                        kv.push(("fields", arr(names)));
                    }
                    AggregateKind::Tuple => kv.push(("ak", esc("tuple"))),
                    AggregateKind::Array(_) => kv.push(("ak", esc("array"))),
                    AggregateKind::Closure(did, _) => {
                        kv.push(("ak", esc("closure")));
                        kv.push(("closure", esc(&self.path(*did))));
                    }
                    AggregateKind::RawPtr(..) => kv.push(("ak", esc("rawptr"))),
                    _ => kv.push(("ak", esc("other"))),
                }
                kv.push(("ops", arr(opsj)));
                obj(kv)
            }
            Rvalue::Repeat(o, _) => obj(vec![("k", esc("repeat")), ("op", self.op_j(owner, body, o))]),
            other => obj(vec![("k", esc("other")), ("dbg", esc(&format!("{:?}", other)))]),
        }
    }

    fn body_j(&self, did: DefId) -> String {
        let tcx = self.tcx;
        let body: &Body<'tcx> = tcx.optimized_mir(did);
        let kind = tcx.def_kind(did);
        let (file, line) = self.loc(tcx.def_span(did));
        let mut kv: Vec<(&str, String)> = vec![];
        kv.push(("kind", esc(&format!("{:?}", kind))));
        kv.push(("file", esc(&file)));
        kv.push(("line", format!("{}", line)));
        kv.push(("from_expansion", jbool(tcx.def_span(did).from_expansion())));
        if matches!(kind, DefKind::Fn | DefKind::AssocFn) {
            kv.push(("vis", esc(&format!("{:?}", tcx.visibility(did)))));
            kv.push(("name", esc(&tcx.item_name(did).to_string())));
        }
        // parent (impl or enclosing fn)
        let parent = tcx.parent(did);
        kv.push(("parent", esc(&self.path(parent))));
        match tcx.def_kind(parent) {
            DefKind::Impl { of_trait } => {
                let self_ty = tcx.type_of(parent).instantiate_identity().skip_norm_wip();
                kv.push(("impl_self", self.ty_j(self_ty)));
                if of_trait {
                    let tr = tcx.impl_trait_ref(parent).instantiate_identity().skip_norm_wip();
                    kv.push(("impl_trait", esc(&self.path(tr.def_id))));
                    kv.push(("impl_trait_ref", esc(&with_no_trimmed_paths!(tr.to_string()))));
                }
                kv.push(("impl_id", esc(&format!("{:?}", parent))));
            }
            _ => {}
        }
        // generics of this item (names)
        {
            let g = tcx.generics_of(did);
            let mut names = vec![];
            let mut cur = Some(g);
            while let Some(gg) = cur {
                for p in gg.own_params.iter().rev() {
                    names.push(esc(&p.name.to_string()));
                }
                cur = gg.parent.map(|p| tcx.generics_of(p));
            }
            names.reverse();
            kv.push(("generics", arr(names)));
        }
        kv.push(("arg_count", format!("{}", body.arg_count)));
        // locals
        let mut names: Vec<Option<String>> = vec![None; body.local_decls.len()];
        for vdi in &body.var_debug_info {
            if let mir::VarDebugInfoContents::Place(p) = &vdi.value {
                if p.projection.is_empty() {
                    names[p.local.as_usize()] = Some(vdi.name.to_string());
                }
            }
        }
        let mut locals = vec![];
        for (l, d) in body.local_decls.iter_enumerated() {
            locals.push(obj(vec![
                ("ty", self.ty_j(d.ty)),
                ("name", opt_s(names[l.as_usize()].clone())),
            ]));
        }
        kv.push(("locals", arr(locals)));
        // blocks
        let mut blocks = vec![];
        for (_bb, data) in body.basic_blocks.iter_enumerated() {
            let mut stmts = vec![];
            for st in &data.statements {
                let (_, sline) = self.loc(st.source_info.span);
                match &st.kind {
                    StatementKind::Assign(box (place, rv)) => {
                        stmts.push(obj(vec![
                            ("k", esc("assign")),
                            ("pl", self.place_j(body, place)),
                            ("rv", self.rv_j(did, body, rv)),
                            ("line", format!("{}", sline)),
                            ("exp", jbool(st.source_info.span.from_expansion())),
                        ]));
                    }
                    StatementKind::SetDiscriminant { place, variant_index } => {
                        stmts.push(obj(vec![
                            ("k", esc("setdiscr")),
                            ("pl", self.place_j(body, place)),
                            ("v", format!("{}", variant_index.as_u32())),
                            ("line", format!("{}", sline)),
                        ]));
                    }
                    StatementKind::Intrinsic(i) => {
                        stmts.push(obj(vec![
                            ("k", esc("intrinsic")),
                            ("dbg", esc(&format!("{:?}", i))),
                            ("line", format!("{}", sline)),
                        ]));
                    }
                    _ => {}
                }
            }
            let term = data.terminator();
            let (_, tline) = self.loc(term.source_info.span);
            let texp = term.source_info.span.from_expansion();
            let tj = match &term.kind {
                TerminatorKind::Goto { target } => {
                    obj(vec![("k", esc("goto")), ("t", format!("{}", target.as_usize()))])
                }
                TerminatorKind::SwitchInt { discr, targets } => {
                    let mut vals = vec![];
                    let mut tgts = vec![];
                    for (v, t) in targets.iter() {
                        vals.push(esc(&format!("{}", v)));
                        tgts.push(format!("{}", t.as_usize()));
                    }
                    obj(vec![
                        ("k", esc("switch")),
                        ("op", self.op_j(did, body, discr)),
                        ("vals", arr(vals)),
                        ("targets", arr(tgts)),
                        ("otherwise", format!("{}", targets.otherwise().as_usize())),
                        ("opty", self.ty_j(discr.ty(&body.local_decls, tcx))),
                    ])
                }
                TerminatorKind::Return => obj(vec![("k", esc("ret"))]),
                TerminatorKind::Unreachable => obj(vec![("k", esc("unreachable"))]),
                TerminatorKind::UnwindResume => obj(vec![("k", esc("resume"))]),
                TerminatorKind::UnwindTerminate(_) => obj(vec![("k", esc("terminate"))]),
                TerminatorKind::Drop { place, target, .. } => obj(vec![
                    ("k", esc("drop")),
                    ("pl", self.place_j(body, place)),
                    ("dty", self.ty_j(place.ty(&body.local_decls, tcx).ty)),
                    ("glue", {
                        let mut out = vec![];
                        self.drop_glue(place.ty(&body.local_decls, tcx).ty, &mut vec![], false, 0, &mut out);
                        arr(out)
                    }),
                    ("t", format!("{}", target.as_usize())),
                ]),
                TerminatorKind::Assert { cond, expected, target, msg, .. } => obj(vec![
                    ("k", esc("assert")),
                    ("cond", self.op_j(did, body, cond)),
                    ("expected", jbool(*expected)),
                    ("t", format!("{}", target.as_usize())),
                    ("msg", esc(&format!("{:?}", msg).chars().take(60).collect::<String>())),
                ]),
                TerminatorKind::Call { func, args, destination, target, unwind, .. } => {
                    let fty = func.ty(&body.local_decls, tcx);
                    let mut kv = vec![("k", esc("call"))];
                    match fty.kind() {
                        ty::FnDef(cdid, cargs) => {
                            if !cdid.is_local() && tcx.is_mir_available(*cdid) && extern_whitelisted(&self.path(*cdid)) {
                                let mut w = self.extern_wanted.borrow_mut();
                                if !w.contains(cdid) {
                                    w.push(*cdid);
                                }
                            }
                            kv.push(("fn", esc(&self.path(*cdid))));
                            kv.push(("fn_local", jbool(cdid.is_local())));
                            kv.push(("fn_crate", esc(&tcx.crate_name(cdid.krate).to_string())));
                            let v: Vec<String> = cargs
                                .iter()
                                .map(|a| esc(&with_no_trimmed_paths!(a.to_string())))
                                .collect();
                            kv.push(("generics", arr(v)));
                            // structured generic types (for closures / adts)
                            let gt: Vec<String> = cargs
                                .iter()
                                .map(|a| match a.as_type() {
                                    Some(t) => self.ty_j(t),
                                    None => "null".into(),
                                })
                                .collect();
                            kv.push(("gtys", arr(gt)));
                            // `mem::drop(v)` / `ptr::drop_in_place(p)`: the destructors of this crate that run
                            {
                                let cp = self.path(*cdid);
                                if cp == "std::mem::drop" || cp == "core::mem::drop" || cp.ends_with("ptr::drop_in_place")
                                    || cp.ends_with("::drop_in_place") {
                                    if let Some(t0) = cargs.iter().next().and_then(|a| a.as_type()) {
                                        let mut out = vec![];
                                        self.drop_glue(t0, &mut vec![], false, 0, &mut out);
                                        kv.push(("glue", arr(out)));
                                        kv.push(("glue_of", esc(if cp.ends_with("mem::drop") { "value" } else { "pointee" })));
                                    }
                                }
                            }
                            // trait method?
                            if let Some(tr) = tcx.trait_of_assoc(*cdid) {
                                kv.push(("trait", esc(&self.path(tr))));
                                kv.push(("method", esc(&tcx.item_name(*cdid).to_string())));
                            }
                            let env = ty::TypingEnv::post_analysis(tcx, did);
                            match ty::Instance::try_resolve(tcx, env, *cdid, cargs) {
                                Ok(Some(inst)) => {
                                    let rdid = inst.def_id();
                                    let rk = match inst.def {
                                        ty::InstanceKind::Item(_) => "item",
                                        ty::InstanceKind::Virtual(..) => "virtual",
                                        ty::InstanceKind::ClosureOnceShim { .. } => "closure_once_shim",
                                        ty::InstanceKind::FnPtrShim(..) => "fnptr_shim",
                                        ty::InstanceKind::DropGlue(..) => "drop_glue",
                                        ty::InstanceKind::CloneShim(..) => "clone_shim",
                                        ty::InstanceKind::Intrinsic(_) => "intrinsic",
                                        _ => "other",
                                    };
                                    kv.push(("rk", esc(rk)));
                                    // the `?` operator on Result / Option: the two trait methods it expands to are
                                    // exported like the whitelisted combinators
                                    {
                                        let rp = self.path(rdid);
                                        if !rdid.is_local() && tcx.is_mir_available(rdid)
                                            && (rp.starts_with("<std::result::Result<") || rp.starts_with("<std::option::Option<")
                                                || rp.starts_with("<core::result::Result<") || rp.starts_with("<core::option::Option<"))
                                            && (rp.ends_with("::Try>::branch") || rp.ends_with(">::from_residual") || rp.ends_with("::Try>::from_output"))
                                        {
                                            let mut w = self.extern_wanted.borrow_mut();
                                            if !w.contains(&rdid) {
                                                w.push(rdid);
                                            }
                                        }
                                    }
                                    kv.push(("resolved", esc(&self.path(rdid))));
                                    kv.push(("resolved_local", jbool(rdid.is_local())));
                                }
                                _ => {
                                    kv.push(("rk", esc("none")));
                                }
                            }
                        }
                        _ => {
                            kv.push(("fnop", self.op_j(did, body, func)));
                            kv.push(("fnty", self.ty_j(fty)));
                        }
                    }
                    let aj: Vec<String> = args.iter().map(|a| self.op_j(did, body, &a.node)).collect();
                    kv.push(("args", arr(aj)));
                    kv.push(("dest", self.place_j(body, destination)));
                    if let mir::UnwindAction::Cleanup(ub) = unwind {
                        kv.push(("unwind", format!("{}", ub.as_usize())));
                    }
                    kv.push((
                        "t",
                        match target {
                            Some(t) => format!("{}", t.as_usize()),
                            None => "null".into(),
                        },
                    ));
                    obj(kv)
                }
                other => obj(vec![
                    ("k", esc("otherterm")),
                    ("dbg", esc(&format!("{:?}", other).chars().take(80).collect::<String>())),
                    (
                        "succ",
                        arr(term.successors().map(|s| format!("{}", s.as_usize())).collect()),
                    ),
                ]),
            };
            blocks.push(obj(vec![
                ("cleanup", jbool(data.is_cleanup)),
                ("stmts", arr(stmts)),
                ("term", tj),
                ("line", format!("{}", tline)),
                ("exp", jbool(texp)),
            ]));
        }
        kv.push(("blocks", arr(blocks)));
        obj(kv)
    }

    fn adts_j(&self) -> String {
        let tcx = self.tcx;
        let mut out = vec![];
        for id in tcx.hir_free_items() {
            let did = id.owner_id.to_def_id();
            let kind = tcx.def_kind(did);
            if !matches!(kind, DefKind::Struct | DefKind::Enum | DefKind::Union) {
                continue;
            }
            let adt = tcx.adt_def(did);
            let mut vars = vec![];
            for v in adt.variants() {
                let mut fields = vec![];
                for f in v.fields.iter() {
                    let fty = tcx.type_of(f.did).instantiate_identity().skip_norm_wip();
                    fields.push(obj(vec![
                        ("name", esc(&f.name.to_string())),
                        ("ty", self.ty_j(fty)),
                        ("needs_drop", jbool(fty.needs_drop(tcx, ty::TypingEnv::post_analysis(tcx, did)))),
                        ("vis", esc(&format!("{:?}", f.vis))),
                    ]));
                }
                vars.push(obj(vec![("name", esc(&v.name.to_string())), ("fields", arr(fields))]));
            }
            let (file, line) = self.loc(tcx.def_span(did));
            let g = tcx.generics_of(did);
            let gn: Vec<String> = g.own_params.iter().map(|p| esc(&p.name.to_string())).collect();
            out.push(format!(
                "{}:{}",
                esc(&self.path(did)),
                obj(vec![
                    ("kind", esc(&format!("{:?}", kind))),
                    ("vis", esc(&format!("{:?}", tcx.visibility(did)))),
                    ("variants", arr(vars)),
                    ("generics", arr(gn)),
                    ("file", esc(&file)),
                    ("line", format!("{}", line)),
                ])
            ));
        }
        format!("{{{}}}", out.join(","))
    }

    fn impls_j(&self) -> String {
        let tcx = self.tcx;
        let mut out = vec![];
        for id in tcx.hir_free_items() {
            let did = id.owner_id.to_def_id();
            if let DefKind::Impl { of_trait } = tcx.def_kind(did) {
                let self_ty = tcx.type_of(did).instantiate_identity().skip_norm_wip();
                let mut kv = vec![("self_ty", self.ty_j(self_ty)), ("id", esc(&format!("{:?}", did)))];
                if of_trait {
                    let tr = tcx.impl_trait_ref(did).instantiate_identity().skip_norm_wip();
                    kv.push(("trait", esc(&self.path(tr.def_id))));
                    kv.push(("trait_ref", esc(&with_no_trimmed_paths!(tr.to_string()))));
                    let hdr = tcx.impl_trait_header(did);
                    kv.push(("polarity", esc(&format!("{:?}", hdr.polarity))));
                    kv.push(("safety", esc(&format!("{:?}", hdr.safety))));
                }
                let preds = tcx.predicates_of(did);
                let pv: Vec<String> = preds
                    .predicates
                    .iter()
                    .map(|(p, _)| esc(&with_no_trimmed_paths!(p.to_string())))
                    .collect();
                kv.push(("predicates", arr(pv)));
                let g = tcx.generics_of(did);
                let gn: Vec<String> = g.own_params.iter().map(|p| esc(&p.name.to_string())).collect();
                kv.push(("generics", arr(gn)));
                let mut items = vec![];
                for it in tcx.associated_items(did).in_definition_order() {
                    let mut ikv = vec![
                        ("name", esc(&it.name().to_string())),
                        ("path", esc(&self.path(it.def_id))),
                        ("kind", esc(&format!("{:?}", tcx.def_kind(it.def_id)))),
                    ];
                    if matches!(tcx.def_kind(it.def_id), DefKind::AssocFn) {
                        ikv.push(("vis", esc(&format!("{:?}", tcx.visibility(it.def_id)))));
                        let sig = tcx.fn_sig(it.def_id).instantiate_identity().skip_norm_wip();
                        ikv.push(("sig", esc(&with_no_trimmed_paths!(sig.to_string()))));
                        // the method's own where-clauses (not the impl's): bounds of its closure parameters
                        let ipreds = tcx.predicates_of(it.def_id);
                        let ipv: Vec<String> = ipreds
                            .predicates
                            .iter()
                            .map(|(p, _)| esc(&with_no_trimmed_paths!(p.to_string())))
                            .collect();
                        ikv.push(("predicates", arr(ipv)));
                    }
                    if matches!(tcx.def_kind(it.def_id), DefKind::AssocConst { .. }) {
                        // value of an associated constant that does not depend on the impl's parameters
                        if let Ok(cv) = tcx.const_eval_poly(it.def_id) {
                            if let Some(si) = cv.try_to_scalar_int() {
                                ikv.push(("value", esc(&format!("{}", si.to_bits_unchecked()))));
                            }
                        }
                    }
                    items.push(obj(ikv));
                }
                kv.push(("items", arr(items)));
                let (file, line) = self.loc(tcx.def_span(did));
                kv.push(("file", esc(&file)));
                kv.push(("line", format!("{}", line)));
                kv.push(("from_expansion", jbool(tcx.def_span(did).from_expansion())));
                out.push(obj(kv));
            }
        }
        arr(out)
    }

    fn reexports_j(&self) -> String {
        // public items reachable from the crate root (names only)
        let tcx = self.tcx;
        let mut out = vec![];
        for child in tcx.module_children_local(rustc_span::def_id::CRATE_DEF_ID) {
            if let Some(did) = child.res.opt_def_id() {
                out.push(obj(vec![
                    ("name", esc(&child.ident.to_string())),
                    ("path", esc(&self.path(did))),
                    ("vis", esc(&format!("{:?}", child.vis))),
                    ("kind", esc(&format!("{:?}", tcx.def_kind(did)))),
                ]));
            }
        }
        arr(out)
    }
}

struct Cb;
impl rustc_driver::Callbacks for Cb {
    fn after_analysis<'tcx>(
        &mut self,
        _c: &rustc_interface::interface::Compiler,
        tcx: TyCtxt<'tcx>,
    ) -> Compilation {
        let want = std::env::var("MQ2_CRATE").unwrap_or("multiqueue2".into());
        let krate = tcx.crate_name(LOCAL_CRATE).to_string();
        if krate != want {
            return Compilation::Continue;
        }
        let out_path = match std::env::var("MQ2_FACTS") {
            Ok(p) => p,
            Err(_) => return Compilation::Continue,
        };
        let cx = Cx { tcx, extern_wanted: std::cell::RefCell::new(vec![]) };
        let mut fns = vec![];
        for ldid in tcx.hir_body_owners() {
            let did = ldid.to_def_id();
            let kind = tcx.def_kind(did);
            if !matches!(kind, DefKind::Fn | DefKind::AssocFn | DefKind::Closure) {
                continue;
            }
            // const fns have no optimized_mir restrictions; skip ctfe-only items
            fns.push(format!("{}:{}", esc(&cx.path(did)), cx.body_j(did)));
        }
        // bodies of the whitelisted std helpers the crate calls (and of those they call, same whitelist)
        let mut xfns = vec![];
        let mut done = 0usize;
        loop {
            let next: Option<DefId> = { cx.extern_wanted.borrow().get(done).copied() };
            match next {
                Some(d) => {
                    xfns.push(format!("{}:{}", esc(&cx.path(d)), cx.body_j(d)));
                    done += 1;
                }
                None => break,
            }
            if done > 200 {
                break;
            }
        }
        let top = obj(vec![
            ("nonce", esc(&std::env::var("MQ2_NONCE").unwrap_or_default())),
            ("crate", esc(&krate)),
            ("debug_assertions", jbool(tcx.sess.opts.debug_assertions)),
            ("opt_level", esc(&format!("{:?}", tcx.sess.opts.optimize))),
            ("target", esc(&tcx.sess.opts.target_triple.to_string())),
            ("adts", cx.adts_j()),
            ("impls", cx.impls_j()),
            ("root_items", cx.reexports_j()),
            ("fns", format!("{{{}}}", fns.join(","))),
            ("xfns", format!("{{{}}}", xfns.join(","))),
        ]);
        std::fs::write(&out_path, top).expect("write facts");
        Compilation::Continue
    }
}

fn main() {
    let mut args: Vec<String> = std::env::args().collect();
    // As RUSTC_WORKSPACE_WRAPPER: argv = [driver, /path/to/rustc, rustc-args...]
    if args.len() > 1 && (args[1].ends_with("rustc") || args[1].contains("/rustc")) {
        args.remove(1);
    }
    args[0] = "rustc".into();
    rustc_driver::run_compiler(&args, &mut Cb);
}
