"""Run the mq2facts driver over a crate with cargo and return the fact file path.

Every call re-extracts from the crate's *current* working tree: the crate's own fingerprint in
the (warm, shared) target dir is deleted first and the fact file must carry this run's nonce.
"""
import fcntl
import glob
import os
import shutil
import subprocess
import time
import uuid

VERIF = os.path.dirname(os.path.dirname(os.path.abspath(__file__)))
WORK = os.path.join(VERIF, '.work')
DRIVER = os.path.join(VERIF, 'driver', 'target', 'release', 'mq2facts')


class ExtractError(Exception):
    pass


def sysroot():
    return subprocess.check_output(['rustc', '+nightly', '--print', 'sysroot'], text=True).strip()


def ensure_driver():
    src = os.path.join(VERIF, 'driver', 'src', 'main.rs')
    if not os.path.exists(DRIVER) or (os.path.exists(src) and os.path.getmtime(src) > os.path.getmtime(DRIVER)):
        env = dict(os.environ, CARGO_NET_OFFLINE='true')
        r = subprocess.run(['cargo', '+nightly', 'build', '--release', '--offline'],
                           cwd=os.path.join(VERIF, 'driver'), env=env,
                           stdout=subprocess.PIPE, stderr=subprocess.STDOUT, text=True)
        if r.returncode != 0 or not os.path.exists(DRIVER):
            raise ExtractError('driver build failed:\n' + r.stdout[-3000:])


def extract(crate_dir='/repo', crate='multiqueue2', config='dev', out=None, tag='repo'):
    """-> path of the fact file"""
    ensure_driver()
    os.makedirs(WORK, exist_ok=True)
    tdir = os.path.join(WORK, 'target-%s-%s' % (tag, config))
    os.makedirs(tdir, exist_ok=True)
    nonce = uuid.uuid4().hex
    if out is None:
        out = os.path.join(WORK, 'facts-%s-%s-%d.json' % (tag, config, os.getpid()))
    if os.path.exists(out):
        os.remove(out)
    # fact files of runs that were interrupted before they could remove theirs
    for old in glob.glob(os.path.join(WORK, 'facts-*-*-*.json')):
        try:
            if time.time() - os.path.getmtime(old) > 1800:
                os.remove(old)
        except OSError:
            pass
    env = dict(os.environ)
    env.update({
        'LD_LIBRARY_PATH': os.path.join(sysroot(), 'lib') + ':' + env.get('LD_LIBRARY_PATH', ''),
        'RUSTFLAGS': '-Zmir-opt-level=0 -Awarnings',
        'RUSTC_WORKSPACE_WRAPPER': DRIVER,
        'CARGO_TARGET_DIR': tdir,
        'CARGO_NET_OFFLINE': 'true',
        'MQ2_FACTS': out,
        'MQ2_NONCE': nonce,
        'MQ2_CRATE': crate,
    })
    env.pop('RUSTC_WRAPPER', None)
    cmd = ['cargo', '+nightly', 'check', '--offline', '--lib']
    if config == 'release':
        cmd.append('--release')
    lock = open(os.path.join(tdir, '.mq2lock'), 'w')
    fcntl.flock(lock, fcntl.LOCK_EX)
    try:
        prof = 'release' if config == 'release' else 'debug'
        for fp in glob.glob(os.path.join(tdir, prof, '.fingerprint', crate.replace('_', '-') + '-*')) + \
                glob.glob(os.path.join(tdir, prof, '.fingerprint', crate + '-*')):
            shutil.rmtree(fp, ignore_errors=True)
        t0 = time.time()
        r = subprocess.run(cmd, cwd=crate_dir, env=env, stdout=subprocess.PIPE,
                           stderr=subprocess.STDOUT, text=True)
        dt = time.time() - t0
    finally:
        fcntl.flock(lock, fcntl.LOCK_UN)
        lock.close()
    if r.returncode != 0:
        raise ExtractError('cargo check of %s failed (does the tree compile?):\n%s' % (crate_dir, r.stdout[-4000:]))
    if not os.path.exists(out):
        raise ExtractError('fact file not produced (driver skipped by cargo freshness cache?)\n' + r.stdout[-2000:])
    with open(out) as f:
        head = f.read(200)
    if nonce not in head:
        raise ExtractError('stale fact file: nonce mismatch')
    return out, dt
