"""Receive-side rules: P3a-g P4 P5a-c O1(load) O2(commit) O3 W3(recv part) W8  (DESIGN.md 4)."""
import re
from core import CheckError, short, short_fn
from engine import has_release, has_acquire, pairing, is_const
from rules_send import (FLAVOURS, WRITE_OPS, CAS_OPS, PAYLOAD_READ, PAYLOAD_ANY, index_sources,
                        fns_mentioning, constructs, site_key)


def recv_roots(ctx):
    F = ctx.F
    shared = [ctx.fn1(r'^multiqueue::InnerRecv::<.*>::try_recv$'),
              ctx.fn1(r'^multiqueue::InnerRecv::<.*>::recv$'),
              ctx.fn1(r'^<&multiqueue::FutInnerRecv<.*> as .*futures::Stream>::poll$')]
    view = [ctx.fn1(r'^multiqueue::InnerRecv::<.*>::try_recv_view$'),
            ctx.fn1(r'^multiqueue::InnerRecv::<.*>::recv_view$'),
            ctx.fn1(r'^<multiqueue::FutInnerUniRecv<.*> as .*futures::Stream>::poll$')]
    return shared, view


def run(ctx):
    ctx.step(_run, ctx)


def _protocol_root(ctx, r, fl, view):
    g = ctx.graph(r, fl)
    _protocol(ctx, g, g.x, r, fl, view=view)


def _run(ctx):
    shared, view = recv_roots(ctx)
    for fl in FLAVOURS:
        for r in shared:
            ctx.step(_protocol_root, ctx, r, fl, False)
        for r in view:
            ctx.step(_protocol_root, ctx, r, fl, True)
    ctx.step(_p5, ctx)


def flavour_pins(ctx, fl):
    """does the flavour pin slots (its inc_ref performs an atomic RMW)?"""
    m = ctx.F.flavours.get(fl, {}).get('inc_ref')
    if m is None:
        raise CheckError('anchor: QueueRW::inc_ref for %s' % fl)
    g = ctx.graph(m)
    return any(a.op in WRITE_OPS for a in g.x.atoms.values())


def is_user_closure_call(g, nid):
    n = g.nodes[nid]
    return n.call is not None and n.call['inlined'] is None and n.call['how'] == 'closure-unresolved'


def payload_reads(g, x):
    """(node, kind) of every read access to a slot payload: clone / bitwise read / drop_in_place /
    user view closure"""
    out = []
    for n in x.ext_calls(PAYLOAD_READ):
        a = g.call_args(n)
        if a and any('QueueEntry.val' in p for p in g.locpaths(a[0])):
            nm = g.call_name(n)
            kind = 'clone' if nm.endswith('clone') else ('drop' if nm.endswith('drop_in_place') else 'read')
            out.append((n, kind))
    for n in g.nodes:
        if n.id in g.live() and is_user_closure_call(g, n.id):
            args = g.call_args(n.id)
            hit = False
            for a in args[1:]:
                for s in g.walk(a):
                    if s[0] in ('ref', 'fld') and any('QueueEntry.val' in p for p in g.locpaths(s)):
                        hit = True
            if hit and (x.rep(n.id), 'view') not in out:
                out.append((x.rep(n.id), 'view'))
    return out


def _protocol(ctx, g, x, root, fl, view):
    F = ctx.F
    tagR = 'P4' if view else 'P3'
    pos = x.atoms_on('ReaderPos.pos_data')
    POSOBS = {a.nid for a in pos if a.op == 'load' or a.op in CAS_OPS}
    commits = [a for a in pos if a.op in WRITE_OPS]
    ctx.floor(tagR, len(commits), 1, 'position commits reachable from %s (%s)' % (short_fn(root), fl))
    reads = payload_reads(g, x)
    consuming = [(n, k) for (n, k) in reads if k != 'drop']
    ctx.floor(tagR, len(consuming), 1, 'payload reads reachable from %s (%s)' % (short_fn(root), fl))
    rsub = short_fn(root)
    # tag tests: (load(wraps) & MASK) ==/!= position
    tests = []   # (switch, match_edges, mismatch_edges, load_nid)
    for t_ in x.tests(('Eq',)):
        for (p, q) in ((t_.a, t_.b), (t_.b, t_.a)):
            lp = [a for a in x.loads_in(p) if a.on('QueueEntry.wraps')]
            lq = x.loads_in(q)
            if lp and lq and all(a.nid in POSOBS for a in lq) and not any(a.on('QueueEntry.wraps') for a in lq):
                tests.append((t_.sid, set(t_.true), set(t_.false), lp[0].nid))
                break
    match_edges = set()
    for t in tests:
        match_edges |= t[1]
    def _load_of(e_, *fields):
        return e_[0] == 'call' and x.rep(e_[1]) in x.atoms and x.atoms[x.rep(e_[1])].on(*fields) and x.atoms[x.rep(e_[1])].op == 'load'
    w0_edges, _nz, _h = x.zero_tests(lambda e_: _load_of(e_, 'MultiQueue.writers'))
    single_edges, _f, _h = x.eq_tests(lambda a_, b_: _load_of(a_, 'ReaderMeta.num_consumers') and is_const(b_, 1))
    incs = [a for a in x.atoms_on('RefCnt.refcnt') if a.op == 'fetch_add']
    decs = [a for a in x.atoms_on('RefCnt.refcnt') if a.op == 'fetch_sub']
    other_ref = [a for a in x.atoms_on('RefCnt.refcnt') if a.op in WRITE_OPS and a.op not in ('fetch_add', 'fetch_sub')]
    inc_n = {a.nid for a in incs}
    dec_n = {a.nid for a in decs}

    for (R, kind) in consuming:
        fn = g.nodes[R].fn
        sub = '%s|%s#i%d' % (rsub, kind, g.nodes[R].inst)
        where = g.where(R)
        # slot index of the read
        ptrarg = None
        if kind == 'view':
            for a in g.call_args(R)[1:]:
                for s in g.walk(a):
                    if s[0] in ('ref',) and any('QueueEntry.val' in p for p in g.locpaths(s)):
                        ptrarg = s
        else:
            ptrarg = g.call_args(R)[0]
        src = index_sources(x, ptrarg) if ptrarg is not None else None
        IDX = {s.nid for s in (src or [])}
        ok = bool(IDX) and IDX <= POSOBS
        ctx.add(tagR + 'a', 'T-FLOW', fn, ok, 'the slot read is indexed by the stream position of this attempt' if ok else
                'payload read %s is not indexed by an observation of the stream position' % x.describe(R), flavour=fl, where=where, sub=sub + '|slot')
        # dominated by a tag==position edge of the same attempt
        good = set()
        for (sid, m, mm, ld) in tests:
            lsrc = index_sources(x, g.call_args(ld)[0])
            if lsrc and {s.nid for s in lsrc} <= POSOBS:
                good |= m
        bad = []
        for h in sorted(IDX):
            if R in x.reach_from(h, blocked=good | (IDX - {h})):
                bad.append(x.describe(h))
        if R in x.reachable_entry(blocked=good | IDX):
            bad.append('entry')
        ctx.add(tagR + 'a', 'T-DOM', fn, not bad and bool(good),
                'payload read only after the slot tag was seen equal to the position of this attempt' if (not bad and good) else
                'payload read %s reachable without a tag==position test after the position observation (%s)' % (x.describe(R), bad),
                flavour=fl, where=where, witness=bad, sub=sub)
        # O1: the licensing tag load is Acquire
        for (sid, m, mm, ld) in tests:
            if x.dom(m, R):
                a = x.atoms[ld]
                okacq = bool(a.ords) and has_acquire(a.ords[0])
                if not okacq:
                    okacq = any(has_acquire(o) and x.dom({f_}, R) and x.reaches(ld, f_) for (f_, o, _) in x.fences)
                ctx.add('O1', 'T-ORD', fn, okacq, 'tag load that licenses the payload read is Acquire (on this target)' if okacq else
                        'tag load %s licensing a payload read is not Acquire and no Acquire fence follows' % x.describe(ld), flavour=fl, where=g.where(ld),
                        sub=sub + '|tagload')
        if not view and flavour_pins(ctx, fl):
            # ---- P3b/c pins
            okc = R not in x.reachable_entry(blocked=inc_n | single_edges)
            ctx.add('P3c', 'T-GUARD', fn, okc, 'the pin is skipped only on the consumers==1 edge' if okc else
                    'payload read reachable without a pin and without having seen consumers==1', flavour=fl, where=where, sub=sub)
            if incs:
                # inc on the slot of this attempt
                for a in incs:
                    s2 = index_sources(x, g.call_args(a.nid)[0])
                    oki = bool(s2) and {s.nid for s in s2} <= POSOBS
                    # ... of THIS attempt: the pinned slot is indexed by exactly the position observations that index the
                    # slot read (a pin cell computed once before the retry loop pins the first attempt's slot for ever)
                    same = {s.nid for s in (s2 or [])} == IDX
                    ctx.add('P3b', 'T-FLOW', fn, oki and same, 'pin is taken on the slot of this attempt' if oki and same else
                            'the pin is not taken on the slot this attempt reads (pinned slot indexed by %s, read slot by %s): after a retry the consumer clones from a slot it has not pinned'
                            % (sorted(x.describe(s.nid) for s in (s2 or []))[:3], sorted(x.describe(i_) for i_ in IDX)[:3]),
                            flavour=fl, where=g.where(a.nid), sub=sub + '|pinslot')
                for a in decs:
                    s3 = index_sources(x, g.call_args(a.nid)[0])
                    same3 = {s.nid for s in (s3 or [])} == IDX
                    ctx.add('P3b', 'T-FLOW', fn, same3, 'the pin is released on the slot of this attempt' if same3 else
                            'the pin is released on another slot than the one this attempt pinned and read', flavour=fl, where=g.where(a.nid), sub=sub + '|unpinslot')
                # re-check after pin: every path inc -> R passes an "equal" edge of a fresh position re-load
                recheck_eq = set()
                recheck_ne = set()
                for t_ in x.tests(('Eq',)):
                    for (p_, q_) in ((t_.a, t_.b), (t_.b, t_.a)):
                        if p_[0] == 'call' and p_[1] in POSOBS and x.atoms[p_[1]].op == 'load' and p_[1] not in IDX \
                                and any(x.reaches(i, p_[1]) for i in inc_n):
                            lq = x.loads_in(q_)
                            if lq and {s.nid for s in lq} <= IDX:
                                recheck_eq.update(t_.true)
                                recheck_ne.update(t_.false)
                okr = bool(recheck_eq) and all(R not in x.reach_from(i, blocked=recheck_eq | dec_n | (inc_n - {i})) for i in inc_n)
                ctx.add('P3b', 'T-DOM', fn, okr, 'after pinning, the position is re-checked before the payload is read' if okr else
                        'payload read reachable from the pin without re-checking the stream position', flavour=fl, where=where, sub=sub + '|recheck')
                # a retry looks at the stream again: the pin cannot be reached a second time without a new observation of
                # the position that indexes the slot (a failed re-check followed by `continue` without reloading the
                # attempt pins and fails the same stale slot for ever)
                okl = all(i not in x.reach_from(i, blocked=IDX | (inc_n - {i})) for i in inc_n)
                ctx.add('P3b', 'T-LOOP', fn, okl, 'every retry of the pinned path re-observes the stream position' if okl else
                        'the shared receive path can come back to the pin without having observed the stream position again: after a failed re-check it retries the same stale slot for ever (the try operation never returns)',
                        flavour=fl, where=where, sub=sub + '|retry-reobserves')
                # unpin after the read: a path from pin to unpin passes the read or the re-check-failed edge
                # (any payload read of this root: the single-consumer path may have a read site of its own that no pinned
                # path passes; that one is not reachable from a pin at all)
                if any(x.reaches(i, R) for i in inc_n):
                    allR = {r_ for (r_, k_) in consuming}
                    oku = all(d not in x.reach_from(i, blocked=allR | recheck_ne | (inc_n - {i})) for i in inc_n for d in dec_n)
                else:
                    oku = True
                ctx.add('P3b', 'T-MUST', fn, oku, 'the slot is unpinned only after the payload read (or on the re-check-failed edge)' if oku else
                        'unpin reachable from the pin before the payload read', flavour=fl, where=where, sub=sub + '|unpin-after-read')
        # ---- P3d / P4: Release between read and commit
        for c in commits:
            if not x.reaches(R, c.nid):
                continue
            relfences = {f_ for (f_, o, _) in x.fences if has_release(o)}
            okrel = (c.ords and has_release(c.ords[0])) or (c.nid not in x.reach_from(R, blocked=relfences))
            ctx.add('O2', 'T-ORD', fn, bool(okrel), 'position commit is Release-ordered after the payload read' if okrel else
                    'commit %s after the payload read carries no Release (ordering or fence)' % x.describe(c.nid), flavour=fl, where=g.where(c.nid),
                    sub=sub + '|commit#i%d' % g.nodes[c.nid].inst)
    # ---- pairing of pins on every path (incl. retry)
    if incs and not view:
        probs = pairing(g, inc_n, dec_n)
        ctx.add('P3b', 'T-PAIR', root, not probs, 'every pin is released on every normal path, including the retry edge' if not probs else
                'pin/unpin not balanced: %s' % '; '.join(probs[:3]), flavour=fl, witness=probs, sub=rsub + '|pairs')
        ctx.add('W8', 'T-WHO', root, not other_ref, 'pin count only changed by +1/-1', flavour=fl, sub=rsub)
    if view:
        ctx.add('W8', 'T-WHO', root, not incs and not decs and not other_ref, 'the view path takes no pins', flavour=fl, sub=rsub)
    # ---- P5d: the reader mode is decided before the position of the attempt is observed
    sets_single = [n for n in x.ext_calls(r'Cell(::<.*>)?::(set|replace)$')
                   if any('Reader.state' in p_ for p_ in g.locpaths(g.call_args(n)[0]))
                   and g.strip(g.call_args(n)[1])[0] == 'agg' and g.strip(g.call_args(n)[1])[2].endswith('ReaderState::Single')]
    ends = {nid for (nid, si, rv) in x.aggs(r'TryRecvError::(Empty|Disconnected)$')} | {c.nid for c in commits}
    late_mode = []
    attempt_pos = set()
    for c in commits:
        for arg in g.call_args(c.nid)[1:3]:
            attempt_pos |= {s_.nid for s_ in x.loads_in(arg) if s_.op == 'load' and s_.nid in POSOBS}
    for S_ in sets_single:
        for p_ in sorted(attempt_pos):
            if x.reaches(p_, S_, blocked=ends):
                late_mode.append((x.describe(S_), x.describe(p_)))
    cons_loads = [a for a in x.atoms_on('ReaderMeta.num_consumers') if a.op == 'load']
    ctx.add('P5d', 'T-DOM', root, not late_mode,
            'the switch to Single (plain-store) mode is decided before the position of the attempt is observed' if not late_mode else
            'the reader is switched to Single mode (%s) after the position of the attempt was already observed (%s): a sibling that advanced the stream and left in between is overwritten by a plain store of old position + 1'
            % late_mode[0], flavour=fl, sub=rsub + '|mode-before-position')
    # ---- commits
    Rn = {n for (n, k) in consuming}
    for c in commits:
        C = c.nid
        fn = g.nodes[C].fn
        sub = '%s|%s#i%d' % (rsub, 'cas' if c.op in CAS_OPS else c.op, g.nodes[C].inst)
        where = g.where(C)
        # commit only after a payload read of this attempt
        okd = x.dom(Rn, C)
        ctx.add(tagR + 'e', 'T-DOM', fn, okd, 'a position is committed only after the payload was read' if okd else
                'position commit %s reachable without reading the payload' % x.describe(C), flavour=fl, where=where, sub=sub + '|after-read')
        newv = g.call_args(C)[2] if c.op in CAS_OPS else g.call_args(C)[1]
        steps = []
        for s in g.walk(newv):
            if s[0] == 'call' and re.search(r'wrapping_add$|checked_add$|unchecked_add$', g.call_name(s[1]) or ''):
                steps.append(g.strip(g.call_args(s[1])[1]))
            if s[0] == 'bin' and s[1] in ('Add', 'AddUnchecked', 'AddWithOverflow'):
                steps.append(g.strip(s[3]))
        okg = len(steps) == 1 and steps[0][0] == 'c' and str(steps[0][1]) == '1' and all(s.nid in POSOBS for s in x.loads_in(newv))
        ctx.add('P3g', 'T-FLOW', fn, okg, 'commit advances the position by exactly 1 from the observed value' if okg else
                'commit does not advance the position by the constant 1', flavour=fl, where=where, sub=sub)
        if c.op in CAS_OPS:
            exp = x.loads_in(g.call_args(C)[1])
            oke = bool(exp) and all(s.nid in POSOBS for s in exp)
            ctx.add('P3e', 'T-FLOW', fn, oke, 'commit CAS expects the position the slot was read at', flavour=fl, where=where, sub=sub + '|expected')
            succ = set()
            fail = set()
            for sid in x.switches():
                e = g.strip(g.switch_expr(sid))
                if e[0] == 'discr' and g.strip(e[1])[0] == 'call' and x.rep(g.strip(e[1])[1]) == x.rep(C):
                    succ.update(x.switch_edges(sid, '0'))
                    fail.update(x.switch_edges(sid, '1'))
            # failure: the speculative value is forgotten (move-out) / dropped (clone-out) before anything else
            disp = _disposals(g, x, fl, Rn)
            okf = bool(fail) and bool(disp) and all(not ((x.reach_from(f_, blocked=disp) & (set(g.exits) | Rn))) for f_ in fail)
            ctx.add('P3e', 'T-MUST', fn, okf,
                    ('failed commit: speculative value is %s before retrying' % ('forgotten (never dropped)' if fl == 'MPMC' else 'dropped')) if okf else
                    'failed commit: the speculative value is not %s on every path back to the loop / to return'
                    % ('passed to mem::forget' if fl == 'MPMC' else 'dropped'), flavour=fl, where=where, sub=sub + '|fail')
            if fl == 'MPMC':
                # never dropped: no Drop of the value on the failure path
                drops = _value_drops(g, x, Rn)
                okn = all(not (x.reach_from(f_, blocked=set(Rn)) & drops) for f_ in fail)
                ctx.add('P3e', 'T-REACH', fn, okn, 'failed commit (move-out): the bitwise copy is never dropped' if okn else
                        'failed commit (move-out): the bitwise copy is dropped (double drop with the winner)', flavour=fl, where=where, sub=sub + '|nodrop')
        else:
            succ = {C}
            # plain-store commit needs sole-consumer evidence (P5b / W13)
            single_state = _single_state_edges(g, x, F)
            oks = x.dom(single_state, C) or view
            ctx.add('P5b', 'T-GUARD', fn, oks, 'plain-store commit only in Single reader mode' + (' (view path: Uni handle, rule W13)' if view and not x.dom(single_state, C) else '') if oks else
                    'plain-store commit %s reachable in Multi reader mode' % x.describe(C), flavour=fl, where=where, sub=sub + '|mode')
        # success -> Ok(value read)
        oks_ = [(nid, si, rv) for (nid, si, rv) in x.aggs(r'result::Result::Ok$')
                if any(r_ in x.calls_in(x.agg_expr(nid, si)) for r_ in Rn) or view]
    # the places where the value read from the slot is wrapped for the caller (Ok(v), Some(v), Ready(..)): every
    # aggregate that has the read's result as a direct operand, whatever it is called
    oknodes = []
    for (nid, si, rv) in x.aggs(r''):
        e = x.agg_expr(nid, si)
        direct = False
        for o_ in e[4]:
            s_ = g.strip(o_)
            for alt in (s_[1] if s_[0] == 'phi' else (s_,)):
                alt = g.strip(alt)
                if alt[0] == 'call' and x.rep(alt[1]) in Rn:
                    direct = True
        if direct:
            oknodes.append(nid)
    if not view:
        succ_all = set()
        for c in commits:
            if c.op in CAS_OPS:
                for sid in x.switches():
                    e = g.strip(g.switch_expr(sid))
                    if e[0] == 'discr' and g.strip(e[1])[0] == 'call' and x.rep(g.strip(e[1])[1]) == x.rep(c.nid):
                        succ_all.update(x.switch_edges(sid, '0'))
            else:
                succ_all.add(c.nid)
        ok = bool(oknodes) and all(x.dom(succ_all, n) for n in oknodes)
        ctx.add('P3e', 'T-DOM', root, ok, 'Ok(value) is returned only after a successful commit, and it is the value read' if ok else
                'Ok(value) reachable without a successful position commit', flavour=fl, sub=rsub + '|ok')
        # after a successful commit the value is returned (not dropped / forgotten)
        disp = _disposals(g, x, fl, Rn) | _value_drops(g, x, Rn)
        bad = [x.describe(d) for s_ in succ_all for d in (x.reach_from(s_, blocked=set(POSOBS)) & disp)]
        # only those in the same loop iteration (blocked at position observations)
        ctx.add('P3e', 'T-REACH', root, not bad, 'a successfully committed value is handed to the caller, not discarded' if not bad else
                'value discarded after a successful commit: %s' % bad[:2], flavour=fl, sub=rsub + '|keep')
    # ---- P3f / P4: Empty and Disconnected
    empt = x.aggs(r'TryRecvError::Empty$')
    disc = x.aggs(r'TryRecvError::Disconnected$')
    first_look_mm = set()
    second = []
    for (sid, m, mm, ld) in tests:
        if w0_edges and x.dom(w0_edges, ld):
            second.append((sid, m, mm, ld))
        else:
            first_look_mm |= mm
    for (nid, si, rv) in disc:
        if x.home(nid) == g.root_inst and not any(g.nodes[nid].fn.endswith(s) for s in ('::try_recv', '::try_recv_view')):
            pass
        fn = g.nodes[nid].fn
        sub = '%s|disc#i%d.bb%d' % (rsub, g.nodes[nid].inst, g.nodes[nid].bb)
        if not _is_construction(g, nid, si):
            continue
        c1 = bool(first_look_mm) and x.dom(first_look_mm, nid)
        c2 = bool(w0_edges) and x.dom(w0_edges, nid)
        mm2 = set()
        for t in second:
            mm2 |= t[2]
        c3 = bool(mm2) and x.dom(mm2, nid)
        ok = c1 and c2 and c3
        ctx.add('P3f', 'T-DOM', fn, ok,
                'Disconnected only after: tag mismatch -> writers==0 -> second look at the same tag still mismatches' if ok else
                'Disconnected at %s: first-look mismatch=%s, writers==0 edge=%s, second look after that=%s' % (x.where_stmt(nid, si), c1, c2, c3),
                flavour=fl, where=x.where_stmt(nid, si), sub=sub)
        # O3: acquire between writers==0 and the second look
        for t in second:
            a = x.atoms[t[3]]
            okacq = (a.ords and has_acquire(a.ords[0])) or any(has_acquire(o) and x.dom({f_}, t[3]) and x.dom(w0_edges, f_) for (f_, o, _) in x.fences)
            ctx.add('O3', 'T-ORD', fn, bool(okacq), 'second look is ordered after the writers==0 observation (Acquire)' if okacq else
                    'second tag look %s is not Acquire-ordered after writers==0' % x.describe(t[3]), flavour=fl, where=g.where(t[3]), sub=sub + '|acq')
            # same slot as the first look
            s2 = index_sources(x, g.call_args(t[3])[0])
            oks2 = bool(s2) and {s.nid for s in s2} <= POSOBS
            ctx.add('P3f', 'T-FLOW', fn, oks2, 'second look examines the slot of this attempt', flavour=fl, where=g.where(t[3]), sub=sub + '|slot')
    for (nid, si, rv) in empt:
        if not _is_construction(g, nid, si):
            continue
        fn = g.nodes[nid].fn
        sub = '%s|empty#i%d.bb%d' % (rsub, g.nodes[nid].inst, g.nodes[nid].bb)
        mm_all = set()
        for t in tests:
            mm_all |= t[2]
        ok = bool(mm_all) and x.dom(mm_all, nid)
        ctx.add('P3f', 'T-DOM', fn, ok, 'Empty only after the tag of the current position was seen not to match' if ok else
                'Empty at %s reachable without examining the slot tag of the current position' % x.where_stmt(nid, si), flavour=fl,
                where=x.where_stmt(nid, si), sub=sub)
    # the error value carries the address of the examined tag (used by the waiters)
    for (nid, si, rv) in x.aggs(r'^$'):
        pass
    # no reader path may drop/touch payloads otherwise (W3, receive part)
    allowed = {n for (n, k) in reads}
    extra = []
    for n in x.ext_calls(PAYLOAD_ANY):
        a = g.call_args(n)
        if n not in allowed and a and any('QueueEntry.val' in p for p in g.locpaths(a[0])):
            extra.append(x.describe(n))
    for n in g.nodes:
        if n.id in g.live() and n.kind == 'block' and n.term['k'] == 'drop' and \
                any('QueueEntry.val' in p for p in g.locpaths(('ref', g.ev_place(n.inst, n.term['pl'])))):
            extra.append(x.describe(n.id))
    ctx.add('W3', 'T-WHO', root, not extra, 'receive path touches the slot payload only through the flavour read' if not extra else
            'unexpected payload access in the receive path: %s' % extra[:3], flavour=fl, sub=rsub + '|recv')
    # ---- view specifics
    if view:
        views = [n for (n, k) in reads if k == 'view']
        drops = [n for (n, k) in reads if k == 'drop']
        for U in views:
            sub = '%s|view#i%d' % (rsub, g.nodes[U].inst)
            stores = {c.nid for c in commits}
            okc = x.must(U, stores)
            ctx.add('P4', 'T-MUST', g.nodes[U].fn, okc, 'after the view closure the position is committed on every path' if okc else
                    'a path from the view closure returns without committing the position', flavour=fl, where=g.where(U), sub=sub + '|commit')
            if fl == 'MPMC':
                okd = len({x.site(d) for d in drops}) == 1 and x.must(U, set(drops)) and all(not x.reaches(c_, d) for c_ in stores for d in drops)
                ctx.add('P4', 'T-MUST', g.nodes[U].fn, okd, 'move-out flavour: the viewed value is destroyed exactly once, after the closure and before the commit' if okd else
                        'move-out flavour: viewed value is not destroyed exactly once between closure and commit', flavour=fl, where=g.where(U), sub=sub + '|destroy')
                for d in drops:
                    okb = x.dom({U}, d) or x.dom(x.same_site(U), d)
                    ctx.add('P4', 'T-DOM', g.nodes[d].fn, okb, 'destroy only after the closure ran', flavour=fl, where=g.where(d), sub=sub + '|order')
            else:
                ctx.add('P4', 'T-WHO', g.nodes[U].fn, not drops, 'clone-out flavour: a viewed value is never destroyed by the reader' if not drops else
                        'clone-out flavour: reader destroys a slot value other streams may still read', flavour=fl, where=g.where(U), sub=sub + '|destroy')
            # result of Ok is the closure's result
            okr = any(U in x.calls_in(x.agg_expr(nid, si)) for (nid, si, rv) in x.aggs(r'result::Result::Ok$'))
            ctx.add('P4', 'T-FLOW', g.nodes[U].fn, okr, 'Ok carries the closure result', flavour=fl, where=g.where(U), sub=sub + '|result')


def _is_construction(g, nid, si):
    return True


def _disposals(g, x, fl, Rn):
    """nodes that dispose of the speculative value: mem::forget(value) for move-out, a Drop of
    the (cloned) value for clone-out"""
    out = set()
    if fl == 'MPMC':
        for n in x.ext_calls(r'mem::forget$'):
            if x.calls_in(g.call_args(n)[0]) & Rn:
                out.add(n)
    else:
        out |= _value_drops(g, x, Rn)
    return out


def _value_drops(g, x, Rn):
    out = set()
    for n in g.nodes:
        if n.id in g.live() and n.kind == 'block' and n.term['k'] == 'drop':
            if x.calls_in(g.ev_place(n.inst, n.term['pl'])) & Rn:
                out.add(n.id)
    for n in x.ext_calls(r'mem::drop$|ptr::drop_in_place$'):
        a = g.call_args(n)
        if a and x.calls_in(a[0]) & Rn:
            out.add(n)
    return out


def _single_state_edges(g, x, F):
    _, rs = F.adt('read_cursor::ReaderState')
    names = [v['name'] for v in rs['variants']]
    if 'Single' not in names:
        raise CheckError('anchor: ReaderState::Single')
    single = str(names.index('Single'))
    out = set()

    def _state_val(v):
        v = g.strip(v)
        if v[0] == 'agg' and 'ReaderState::' in v[2]:
            return True
        if v[0] == 'call' and re.search(r'Cell(::<.*>)?::get$', g.call_name(v[1]) or '') and \
                any('Reader.state' in p for p in g.locpaths(g.call_args(v[1])[0])):
            return True
        return v[0] == 'fld' and v[2].endswith('ReadAttempt.state')

    # `state == ReaderState::Single` (derived PartialEq: a comparison of discriminants) next to `match state {..}`
    for t_ in x.tests(('Eq',)):
        for (a_, b_) in ((t_.a, t_.b), (t_.b, t_.a)):
            if a_[0] == 'discr' and b_[0] == 'c' and str(b_[1]) == single:
                inner = g.strip(a_[1])
                vals = [inner] if inner[0] != 'phi' else list(inner[1])
                if vals and all(_state_val(v_) for v_ in vals):
                    out.update(t_.true)
    for sid in x.switches():
        e = g.strip(g.switch_expr(sid))
        if e[0] == 'discr':
            inner = g.strip(e[1])
            vals = [inner] if inner[0] != 'phi' else list(inner[1])
            ok = True
            for v in vals:
                v = g.strip(v)
                if v[0] == 'agg' and 'ReaderState::' in v[2]:
                    continue
                if v[0] == 'call' and re.search(r'Cell(::<.*>)?::get$', g.call_name(v[1]) or '') and \
                        any('Reader.state' in p for p in g.locpaths(g.call_args(v[1])[0])):
                    continue
                if v[0] == 'fld' and v[2].endswith('ReadAttempt.state'):
                    continue
                ok = False
            if ok and vals:
                out.update(x.switch_edges(sid, single))
    return out


def _p5(ctx):
    """reader mode: Single stored only on the consumers==1 edge after an Acquire fence;
    Clone for InnerRecv bumps the count (and marks Multi) before copying the Reader"""
    F = ctx.F
    subjects = set()
    for name in list(F.fns):
        f = F.fns[name]
        if f.get('from_expansion'):
            continue
        hit = False
        for b in f['blocks']:
            for s in b['stmts']:
                if s['k'] == 'assign' and s['rv']['k'] == 'agg' and s['rv']['ak'] == 'adt' and \
                        s['rv']['adt'].endswith('ReaderState') and s['rv']['variant'] == 'Single':
                    hit = True
        if hit:
            # (a helper that does not exist in the reference tree is analysed inside the functions that call it)
            subjects |= ctx.subjects_for(name)
    for name in sorted(subjects):
        f = F.fns[name]
        g = ctx.graph(name)
        x = g.x
        one, _f, _h = x.eq_tests(lambda a_, b_: a_[0] == 'call' and x.rep(a_[1]) in x.atoms and
                                 x.atoms[x.rep(a_[1])].on('ReaderMeta.num_consumers') and is_const(b_, 1))
        for (nid, si, rv) in x.aggs(r'ReaderState::Single$'):
            if x.home(nid) != g.root_inst:
                continue
            # a stream created here (its consumer counter is built by this function or by a helper new to the tree)
            fresh = constructs(F, name, 'ReaderMeta') or any(x.home(n_) == g.root_inst for (n_, _s, _r) in x.aggs(r'ReaderMeta::ReaderMeta$'))
            acq = [f_ for (f_, o, _) in x.fences if has_acquire(o) and x.dom(one, f_)]
            ok = fresh or (x.dom(one, nid) and any(x.dom({f_}, nid) for f_ in acq))
            ctx.add('P5a', 'T-GUARD', name, ok, ('ReaderState::Single for a fresh stream' if fresh else 'Single stored only on the consumers==1 edge after an Acquire fence') if ok else
                    'ReaderState::Single built in %s without the consumers==1 guard + Acquire fence' % short_fn(name), where=x.where_stmt(nid, si), sub='single.bb%d' % g.nodes[nid].bb)
    # commit_attempt table
    fn = ctx.fn1(r'^multiqueue::InnerRecv::<.*>::try_recv$')
    # Clone for InnerRecv
    cl = ctx.fn1(r'^<multiqueue::InnerRecv<.*> as std::clone::Clone>::clone$')
    g = ctx.graph(cl)
    x = g.x
    incs = {a.nid for a in x.atoms_on('ReaderMeta.num_consumers', ops={'fetch_add'})}
    sets = {n for n in x.ext_calls(r'Cell(::<.*>)?::set$') if any('Reader.state' in p for p in g.locpaths(g.call_args(n)[0]))
            and g.strip(g.call_args(n)[1])[0] == 'agg' and g.strip(g.call_args(n)[1])[2].endswith('ReaderState::Multi')}
    aggs = x.aggs(r'multiqueue::InnerRecv::InnerRecv$')
    ctx.floor('P5c', len(aggs), 1, 'InnerRecv{..} in Clone for InnerRecv')
    copies = set(x.ext_calls(r'Cell(::<.*>)?::(get|clone)$|clone::Clone::clone$')) | set(x.inlined(r'read_cursor::Reader as std::clone::Clone>::clone$'))
    rcopy = set(x.inlined(r'read_cursor::Reader as std::clone::Clone>::clone$'))
    ok = bool(incs) and bool(sets) and bool(rcopy) and all(x.dom(incs, r) and x.dom(sets, r) for r in rcopy)
    ctx.add('P5c', 'T-DOM', cl, ok, 'consumer count is raised and the source marked Multi before the Reader is copied (so the copy is Multi)' if ok else
            'Clone for InnerRecv copies the Reader before dup_consumer (count+1, state:=Multi): the copy may stay Single', sub='order')
    for n in incs:
        v = g.strip(g.call_args(n)[1])
        ctx.add('W7', 'T-FLOW', cl, v[0] == 'c' and str(v[1]) == '1', 'consumers += 1', where=g.where(n), sub='inc')
