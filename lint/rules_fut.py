"""Futures adapter rules: P11a-d,f  (DESIGN.md section 4)."""
import re
from core import CheckError, short, short_fn
from rules_send import FLAVOURS, WRITE_OPS, CAS_OPS
from rules_wait import BLOCKING_RE

PEER_BLOCK = BLOCKING_RE + r'|wait::Wait::wait$'


def run(ctx):
    ctx.step(_p11a, ctx)
    ctx.step(_p11d, ctx)
    ctx.step(_p11f, ctx)
    ctx.step(_p11i, ctx)


def _leaves_only_param(g, e, param):
    """every leaf of the value expression is the given root parameter (through phis, handed-back
    error payloads and moves)"""
    bad = []
    for s in g.walk(e):
        k = s[0]
        if k in ('phi', 'fld', 'dc', 'cast'):
            continue
        if k == 'agg' and ('TrySendError::' in s[2] or 'Result::' in s[2]):
            continue
        if s == param:
            continue
        if k == 'rec':
            continue
        bad.append(s[0] if k != 'call' else 'call:' + short_fn(g.call_name(s[1])))
    return bad


def _p11a(ctx):
    ss = ctx.fn1(r'^<&multiqueue::FutInnerSend<.*> as .*futures::Sink>::start_send$')
    for fl in FLAVOURS:
        g = ctx.graph(ss, fl)
        x = g.x
        msg = ('param', g.root_inst, 2)
        pubs = {a.nid for a in x.atoms_on('QueueEntry.wraps', ops=WRITE_OPS)}
        fulls = {nid for (nid, si, rv) in x.aggs(r'TrySendError::Full$')}
        discs = {nid for (nid, si, rv) in x.aggs(r'TrySendError::Disconnected$')}
        ready = [(nid, si) for (nid, si, rv) in x.aggs(r'AsyncSink::Ready$') if x.home(nid) == g.root_inst]
        notready = [(nid, si) for (nid, si, rv) in x.aggs(r'AsyncSink::NotReady$') if x.home(nid) == g.root_inst]
        serr = [(nid, si) for (nid, si, rv) in x.aggs(r'SendError::SendError$|mpsc::SendError') if x.home(nid) == g.root_inst]
        ctx.floor('P11a', len(ready) + len(notready) + len(serr), 1, 'result constructions of Sink::start_send')
        # each of the three answers must be possible at all: an arm that no path of the inlined send can reach any more
        # (e.g. Disconnected, when the attempt stops looking at the no-reader signal) is an answer the sink never gives
        for (kind, found, what) in (('Ready', ready, 'accept a message'), ('NotReady', notready, 'report a full queue (back-pressure)'),
                                    ('SendError', serr, 'report that every receiver is gone')):
            ctx.add('P11a', 'T-MAP', ss, bool(found), 'start_send can answer %s' % kind if found else
                    'no path of start_send constructs %s: the sink can never %s' % (kind, what), flavour=fl, sub='can-' + kind.lower())
        for (nid, si) in ready:
            ok = x.dom(pubs, nid)
            ctx.add('P11a', 'T-MAP', ss, ok, 'AsyncSink::Ready only after a value was published' if ok else
                    'start_send can answer Ready without having enqueued the message', flavour=fl, where=x.where_stmt(nid, si), sub='ready')
        for p in sorted(pubs):
            ok = x.must(p, {n for (n, _) in ready})
            ctx.add('P11a', 'T-MUST', ss, ok, 'an enqueued message is always answered with Ready' if ok else
                    'start_send can enqueue the message and still answer NotReady/Err (the caller would send it twice)', flavour=fl, where=g.where(p),
                    sub='pub#i%d' % g.nodes[p].inst)
        for (nid, si) in notready:
            e = x.agg_expr(nid, si)
            ok1 = x.dom(fulls, nid)
            bad = _leaves_only_param(g, e[4][0], msg)
            ok2 = not bad
            ok3 = not any(x.reaches(p, nid) for p in pubs)
            ctx.add('P11a', 'T-MAP', ss, ok1 and ok2 and ok3,
                    'NotReady(msg) only after Full, never after a publication, and msg is the caller\'s message' if ok1 and ok2 and ok3 else
                    'NotReady: only after Full=%s, message identity (foreign leaves %s), not after enqueueing=%s' % (ok1, bad[:3], ok3), flavour=fl,
                    where=x.where_stmt(nid, si), sub='notready')
        for (nid, si) in serr:
            e = x.agg_expr(nid, si)
            ok1 = x.dom(discs, nid)
            bad = _leaves_only_param(g, e[4][0], msg)
            ctx.add('P11a', 'T-MAP', ss, ok1 and not bad, 'Err(SendError(msg)) exactly for Disconnected, carrying the caller\'s message' if ok1 and not bad else
                    'SendError: only after Disconnected=%s, message identity (foreign leaves %s)' % (ok1, bad[:3]), flavour=fl, where=x.where_stmt(nid, si), sub='senderror')
        # Disconnected never parks and never answers NotReady
        pushes = set(x.ext_calls(r'VecDeque(::<.*>)?::push_(back|front)$'))
        for d in sorted(discs):
            bad = x.reach_from(d, blocked={n for (n, _) in serr}) & (set(g.exits) | pushes)
            ctx.add('P11b', 'T-MUST', ss, not bad, 'Disconnected leads only to Err(SendError), never to parking or NotReady' if not bad else
                    'after Disconnected the sink can park the task or answer something other than Err', flavour=fl, where=g.where(d),
                    sub='disc#i%d.bb%d' % (g.nodes[d].inst, g.nodes[d].bb))
        # every send attempt gets the caller's message (re-using the handed-back value)
        closures = [i for i in g.insts if i.how in ('closure-prov', 'closure-direct') and 'start_send' in i.fn]
        for ci in closures:
            e = g.ev_local(ci.id, 2)
            bad = _leaves_only_param(g, e, msg)
            ctx.add('P11b', 'T-FLOW', ss, not bad, 'each attempt of send_or_park sends the caller\'s message (or the value handed back by the previous Full)' if not bad else
                    'a send attempt uses a value other than the caller\'s message: %s' % bad[:3], flavour=fl, sub='attempt#i%d' % ci.id)
        # notify consumers after a successful send (sink side of P2d)
        notifies = set(x.ext_calls(r'wait::Wait::notify$'))
        for p in sorted(pubs):
            nn_false = set()
            for sid in x.switches():
                e = g.strip(g.switch_expr(sid))
                if any(s[0] == 'fld' and s[2] == 'MultiQueue.needs_notify' for s in g.walk(e)) and e[0] != 'bin':
                    nn_false.update(x.switch_edges(sid, 'zero'))
            ok = x.must(p, notifies | nn_false)
            ctx.add('P2d', 'T-MUST', ss, ok, 'sink: publication is followed by waiter.notify()' if ok else 'sink: a publication is not followed by waiter.notify()',
                    flavour=fl, where=g.where(p), sub='sink#i%d' % g.nodes[p].inst)
    pc = ctx.fn1(r'^<&multiqueue::FutInnerSend<.*> as .*futures::Sink>::poll_complete$')
    g = ctx.graph(pc)
    r = g.strip(g.ev_local(g.root_inst, 0))
    ok = r[0] == 'agg' and r[2].endswith('Result::Ok')
    ctx.add('P11a', 'T-MAP', pc, ok, 'poll_complete is Ok(Ready(())): nothing is buffered', sub='poll_complete')


def fut_recv_roots(ctx):
    return [ctx.fn1(r'^<&multiqueue::FutInnerRecv<.*> as .*futures::Stream>::poll$'),
            ctx.fn1(r'^<multiqueue::FutInnerUniRecv<.*> as .*futures::Stream>::poll$'),
            ctx.fn1(r'^multiqueue::FutInnerUniRecv::<.*>::try_recv$'),
            ctx.fn1(r'^multiqueue::FutInnerUniRecv::<.*>::recv$'),
            ctx.fn1(r'^multiqueue::FutInnerRecv::<.*>::try_recv$'),
            ctx.fn1(r'^multiqueue::FutInnerRecv::<.*>::recv$')] + new_fut_recv_roots(ctx)


def root_flavours(name):
    if re.match(r'^(<&?(\'a )?)?broadcast::', name):
        return ['BCast']
    if re.match(r'^(<&?(\'a )?)?mpmc::', name):
        return ['MPMC']
    return list(FLAVOURS)


def new_fut_recv_roots(ctx):
    """entry points that do not exist in the reference tree (a new public method, the `next` of a new iterator type) and
    move the position of a stream through a futures receive handle: they owe the producers' task list the same
    notification as the receive functions of the reference tree"""
    got = getattr(ctx, '_new_fut_recv_roots', None)
    if got is not None:
        return got
    F = ctx.F
    out = []
    rev = ctx.revcg()
    for name in sorted(F.fresh):
        f = F.fns.get(name)
        if f is None or f['kind'] == 'Closure' or f.get('from_expansion') or rev.get(name):
            continue
        if not re.match(r'^(<&?(\'a )?)?(multiqueue|broadcast|mpmc)::', name):
            continue
        # an inherent function of the inner layer that nothing calls is dead code (the inner types are not exported);
        # trait methods (`next`, `poll`) and the public wrappers are reachable by users
        if name.startswith('multiqueue::'):
            continue
        try:
            g = ctx.graph(name, root_flavours(name)[0])
        except CheckError:
            continue
        x = g.x
        commits = [a for a in x.atoms_on('ReaderPos.pos_data') if a.op in WRITE_OPS]
        if any(re.search(r'FutInner(Uni)?Recv\.reader/', p_) for a in commits for p_ in a.paths):
            out.append(name)
    ctx._new_fut_recv_roots = out
    return out


def _prod_notifies(g, x):
    out = set()
    for n in x.inlined(r'FutWait::notify_all$|FutWait as wait::Wait>::notify$'):
        inst = g.nodes[n].call['inlined']
        e = g.ev_local(inst, 1)
        if any(s[0] == 'fld' and s[2].endswith('.prod_wait') for s in g.deep_walk(e)):
            out.add(n)
    return out


def _p11d(ctx):
    roots = fut_recv_roots(ctx)
    for r in roots:
        for fl in root_flavours(r):
            g = ctx.graph(r, fl)
            x = g.x
            commits = [a for a in x.atoms_on('ReaderPos.pos_data') if a.op in WRITE_OPS]
            ctx.floor('P11d', len(commits), 1, 'position commits reachable from %s' % short_fn(r))
            pn = _prod_notifies(g, x)
            for c in commits:
                if c.op in CAS_OPS:
                    starts = set()
                    for sid in x.switches():
                        e = g.strip(g.switch_expr(sid))
                        if e[0] == 'discr' and g.strip(e[1])[0] == 'call' and x.rep(g.strip(e[1])[1]) == c.nid:
                            starts.update(x.switch_edges(sid, '0'))
                else:
                    starts = {c.nid}
                ok = bool(pn) and bool(starts) and all(x.must(s_, pn) for s_ in starts)
                ctx.add('P11d', 'T-MUST', r, ok, 'a consumed value (space freed) is followed by a drain of the producer task list' if ok else
                        '%s consumes a value without notifying the producer list: a sink task parked on Full is never woken by this receive' % short_fn(r),
                        flavour=fl, where=g.where(c.nid), sub='%s#i%d' % ('cas' if c.op in CAS_OPS else 'store', g.nodes[c.nid].inst))
    # P11h: releasing a pin is a state change a refused sink task waits for: every path from an unpin to a
    # return passes a drain of the producer list (unless the stream ended: no live sender, nobody parked)
    for r in roots:
        g = ctx.graph(r, 'BCast')
        x = g.x
        unpins = [a for a in x.atoms_on('RefCnt.refcnt') if a.op in ('fetch_sub', 'store', 'swap')]
        if not unpins:
            continue
        pn = _prod_notifies(g, x)
        disc = {nid for (nid, si, rv) in x.aggs(r'TryRecvError::Disconnected$')}
        for a in unpins:
            ok = bool(pn) and not (x.reach_from(a.nid, blocked=pn | disc) & set(g.exits))
            ctx.add('P11h', 'T-MUST', r, ok, 'after releasing a slot pin the receive drains the producer task list before it returns' if ok else
                    '%s can release a slot pin and return (Empty / NotReady) without notifying the producer list: a sink task that was refused because of the pin stays parked although the slot is free, and with this consumer parked too nobody ever notifies it'
                    % short_fn(r), flavour='BCast', where=g.where(a.nid), sub='unpin#i%d' % g.nodes[a.nid].inst)
    # P11c: poll result mapping: Ready(Some(v)) only after a successful commit
    for r in roots[:2]:
        for fl in FLAVOURS:
            g = ctx.graph(r, fl)
            x = g.x
            commits = [a for a in x.atoms_on('ReaderPos.pos_data') if a.op in WRITE_OPS]
            succ = set()
            for c in commits:
                if c.op in CAS_OPS:
                    for sid in x.switches():
                        e = g.strip(g.switch_expr(sid))
                        if e[0] == 'discr' and g.strip(e[1])[0] == 'call' and x.rep(g.strip(e[1])[1]) == c.nid:
                            succ.update(x.switch_edges(sid, '0'))
                else:
                    succ.add(c.nid)
            for (nid, si, rv) in x.aggs(r'Async::Ready$'):
                if x.home(nid) != g.root_inst:
                    continue
                e = x.agg_expr(nid, si)
                v = g.strip(e[4][0]) if e[4] else None
                if v is not None and v[0] == 'agg' and v[2].endswith('Option::Some'):
                    ok = x.dom(succ, nid)
                    ctx.add('P11c', 'T-MAP', r, ok, 'Ready(Some(v)) only after a successful commit' if ok else 'poll can yield a value without committing the position (it would be yielded again)',
                            flavour=fl, where=x.where_stmt(nid, si), sub='some')
            for (nid, si, rv) in x.aggs(r'Async::NotReady$'):
                if x.home(nid) != g.root_inst:
                    continue
                pushes = set(x.ext_calls(r'VecDeque(::<.*>)?::push_(back|front)$'))
                ok = x.dom(pushes, nid)
                ctx.add('P11c', 'T-MAP', r, ok, 'NotReady only after the task was registered for wake-up' if ok else 'poll can answer NotReady without having registered the task',
                        flavour=fl, where=x.where_stmt(nid, si), sub='notready')


def _p11f(ctx):
    roots = [ctx.fn1(r'^<&multiqueue::FutInnerRecv<.*> as .*futures::Stream>::poll$'),
             ctx.fn1(r'^<multiqueue::FutInnerUniRecv<.*> as .*futures::Stream>::poll$'),
             ctx.fn1(r'^<&multiqueue::FutInnerSend<.*> as .*futures::Sink>::start_send$'),
             ctx.fn1(r'^<&multiqueue::FutInnerSend<.*> as .*futures::Sink>::poll_complete$')]
    for r in roots:
        g = ctx.graph(r, 'BCast')
        x = g.x
        bad = x.ext_calls(PEER_BLOCK)
        ctx.add('P11f', 'T-REACH', r, not bad, 'no call that blocks on a peer is reachable' if not bad else
                '%s can block inside the call: %s' % (short_fn(r), [x.describe(b) for b in bad][:3]), sub='noblock')


def _p11i(ctx):
    """wherever a futures receiver gives up its place on a stream (its consumer count is decremented), the producer
    task list is drained afterwards on every path: a sink task parked because of that stream must be woken"""
    F = ctx.F
    n = 0
    for name in sorted(F.fns):
        f = F.fns[name]
        if f['kind'] != 'AssocFn' or f.get('from_expansion') or (name in F.fresh and ctx.revcg().get(name)):
            continue
        adt = (f.get('impl_self') or {}).get('adt') or ''
        if not re.search(r'multiqueue::FutInner(Uni)?Recv$', adt):
            continue
        g = ctx.graph(name, 'BCast')
        x = g.x
        decs = [a for a in x.atoms_on('ReaderMeta.num_consumers') if a.op == 'fetch_sub']
        if not decs:
            continue
        n += 1
        pn = _prod_notifies(g, x)
        for a in decs:
            ok = bool(pn) and x.must(a.nid, pn)
            ctx.add('P11i', 'T-MUST', name, ok, 'leaving the stream is followed by draining the producer task list' if ok else
                    '%s removes this handle from its stream (consumer count decremented) and can return without notifying the producer list: '
                    'a sink task parked as Full because of that stream is never woken (the later Drop finds the handle already unsubscribed and does nothing)' % short_fn(name),
                    where=g.where(a.nid), sub='leave#i%d' % g.nodes[a.nid].inst)
    ctx.floor('P11i', n, 2, 'futures receiver functions that unsubscribe (the two Drop impls)')
