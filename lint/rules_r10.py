"""Rules added after round 10 of the seeded changes ("a small feature / bug-fix commit with a side effect"): new API
surface.  What the earlier rules had in common is that they analyse the functions of the reference tree; a feature
commit adds entry points and parameters, so these rules follow values *up* the call graph to every caller and look at
type-level facts (what a handle stores, what an `unsafe impl` promises) that hold for whatever is added later."""
import re
from core import CheckError, short, short_fn

ATOMIC_NEW = r'Atomic(Usize|U16|U32|U64|Isize)?(::<.*>)?::new$'


def run(ctx):
    ctx.step(_p5n, ctx)
    ctx.step(_w19, ctx)
    ctx.step(_p4r, ctx)
    ctx.step(_s6, ctx)
    ctx.step(_p12u, ctx)
    ctx.step(_s7, ctx)
    ctx.step(_s8, ctx)
    ctx.step(_s9, ctx)


# ----------------------------------------------------------------------------------------
# interprocedural constants: the values the crate passes for one parameter, followed up through callers that
# merely hand their own parameter on
# ----------------------------------------------------------------------------------------

def api_entry(ctx, fn):
    """fn can be called by a user of the crate: a `pub` function / method of an item the crate root exports (or of the
    public module `wait`)"""
    F = ctx.F
    exp = getattr(ctx, '_exported', None)
    if exp is None:
        exp = {it['path'] for it in F.root_items if it.get('vis') == 'Public'}
        ctx._exported = exp
    f = F.fns[fn]
    if 'Public' not in (f.get('vis') or ''):
        return False
    st = f.get('impl_self') or {}
    adt = st.get('adt') or (st.get('inner') or {}).get('adt')
    if adt:
        return adt in exp or adt.startswith('wait::')
    plain = re.sub(r'::<[^<>]*(<[^<>]*>[^<>]*)*>', '', fn)
    return plain in exp or plain.startswith('wait::')


def arg_leaves(ctx, fn, pidx, depth=0, seen=None):
    """-> [(kind, value, function)]: kind 'const' (value = the constant), 'entry' (fn is not called inside the crate:
    the value is chosen by the user of the crate), 'other' (computed)"""
    seen = set() if seen is None else seen
    if (fn, pidx) in seen or depth > 8:
        return []
    seen.add((fn, pidx))
    callers = sorted(c for c in (ctx.revcg().get(fn) or []) if c in ctx.F.fns)
    out = []
    if not callers or api_entry(ctx, fn):
        out.append(('entry', None, fn))
    for c in callers:
        g = ctx.graph(c)
        x = g.x
        sites = [n for n in x.inlined('^' + re.escape(fn) + '$') if g.nodes[n].fn == c]
        if not sites:
            out.append(('other', None, c))
        for n in sites:
            args = g.call_args(n)
            if pidx - 1 >= len(args):
                out.append(('other', None, c))
                continue
            v = g.strip(args[pidx - 1])
            if v[0] == 'c' and v[1] is not None:
                out.append(('const', str(v[1]), c))
            elif v[0] == 'param' and v[1] == g.root_inst:
                out += arg_leaves(ctx, c, v[2], depth + 1, seen)
            else:
                out.append(('other', None, c))
    return out


# ----------------------------------------------------------------------------------------
# P5n: a new stream is created with exactly one registered consumer - the one handle its creation returns.  Every
# further handle registers itself (dup_consumer in Clone); a stream published with a larger count can never be
# taken out of the list again (remove_consumer() never answers 1) and holds the writers back for ever.
# ----------------------------------------------------------------------------------------

def _p5n(ctx):
    F = ctx.F
    makers = set()
    for name, f in F.fns.items():
        if f.get('from_expansion'):
            continue
        for b in f['blocks']:
            for s in b['stmts']:
                if s['k'] == 'assign' and s['rv']['k'] == 'agg' and s['rv'].get('ak') == 'adt' and s['rv']['adt'].endswith('read_cursor::ReaderMeta'):
                    makers.add(name)
    ctx.floor('P5n', len(makers), 1, 'constructions of ReaderMeta')
    for fn in sorted(makers):
        root = fn
        while F.fns[root]['kind'] == 'Closure' and F.fns[root].get('parent') in F.fns:
            root = F.fns[root]['parent']
        g = ctx.graph(root)
        x = g.x
        for (nid, si, rv) in x.aggs(r'read_cursor::ReaderMeta::ReaderMeta$'):
            e = g.strip(x.agg_expr(nid, si))
            if e[0] != 'agg' or 'num_consumers' not in e[3]:
                continue
            v = g.strip(e[4][e[3].index('num_consumers')])
            if v[0] == 'call' and re.search(ATOMIC_NEW, g.call_name(v[1]) or ''):
                v = g.strip(g.call_args(v[1])[0])
            bad = []
            if v[0] == 'c':
                if str(v[1]) != '1':
                    bad.append('the constant %s' % v[1])
            elif v[0] == 'param' and v[1] == g.root_inst:
                for (k, val, where) in arg_leaves(ctx, root, v[2]):
                    if k == 'const' and val == '1':
                        continue
                    bad.append({'const': 'the constant %s passed by %s' % (val, short_fn(where)),
                                'entry': 'a number chosen by the caller of %s' % short_fn(where),
                                'other': 'a value computed in %s' % short_fn(where)}[k])
            else:
                bad.append('a computed value')
            # .. in a cell of its own: the Reader built here points at a counter allocated here (a recycled cell keeps the
            # count its previous stream ended with)
            for (rn, rsi, rrv) in x.aggs(r'read_cursor::Reader::Reader$'):
                re_ = g.strip(x.agg_expr(rn, rsi))
                if re_[0] != 'agg' or 'meta' not in re_[3]:
                    continue
                mv = re_[4][re_[3].index('meta')]
                # (handed in, or taken out of a shared cell; whatever allocator call the tree uses yields a fresh cell)
                stale = [s_ for s_ in g.walk(mv) if s_[0] in ('param', 'unknown', 'hofarg') or
                         (s_[0] == 'call' and re.search(r'atomic::Atomic\w*(::<.*>)?::\w+$|Cell(::<.*>)?::(get|take|replace)$|Option(::<.*>)?::take$', g.call_name(s_[1]) or ''))]
                if stale:
                    bad.append('a counter cell that is not allocated for this stream (%s)' % (g.call_name(stale[0][1]) if stale[0][0] == 'call' else 'handed in'))
            ok = not bad
            ctx.add('P5n', 'T-FLOW', root, ok, 'a new stream is published with one registered consumer (the handle its creation returns)' if ok else
                    'a new stream\'s consumer count starts at %s instead of 1: with more registrations than handles the last handle\'s removal is never recognised (the stream stays in the list and holds the writers back for ever); with fewer a live handle\'s stream is removed under it'
                    % '; '.join(sorted(set(bad))[:3]), where=x.where_stmt(nid, si), sub='one-consumer')


# ----------------------------------------------------------------------------------------
# W19: what an `unsafe impl Send/Sync` promises covers everything the type stores.  The trait-solver witnesses (c19)
# decide the impls for given argument types; they cannot see that a handle began to *store* a value of a parameter
# type its unsafe impl never mentioned (the impl was right while the parameter only occurred in the closure's
# signature).  Structural rule: every type parameter that occurs in a field of the type - or, transitively, of a
# crate-local type it stores by value - other than inside PhantomData / a fn pointer, is bounded by the promised trait
# (or by Send for a Sync promise through a shared reference) in the impl.
# ----------------------------------------------------------------------------------------

def _split_top(body):
    out, depth, cur = [], 0, ''
    for ch in body:
        if ch in '<([':
            depth += 1
        elif ch in '>)]':
            depth -= 1
        if ch == ',' and depth == 0:
            out.append(cur.strip())
            cur = ''
        else:
            cur += ch
    if cur.strip():
        out.append(cur.strip())
    return out


def _split_generics(s):
    """top-level comma split of the text between the outermost <..> of a type string"""
    i = s.find('<')
    if i < 0 or not s.endswith('>'):
        return []
    return _split_top(s[i + 1:-1])


def _strip_shielded(ty):
    """remove the parts of a type string in which a parameter is not stored: PhantomData<..>, fn(..) -> .."""
    out = ty
    for _ in range(6):
        m = re.search(r'(std::marker::|core::marker::)?PhantomData<', out)
        if not m:
            break
        i = m.end()
        depth = 1
        while i < len(out) and depth:
            depth += out[i] == '<'
            depth -= out[i] == '>'
            i += 1
        out = out[:m.start()] + '()' + out[i:]
    out = re.sub(r'(unsafe )?(extern "[^"]*" )?fn\([^()]*\)( -> [A-Za-z0-9_:<>&\' ]+)?', '()', out)
    return out


def _stored_in(F, ty, own, seen, direct=False):
    """type parameters (names from `own`) of which the type `ty` (a type string) stores a value; direct: only values
    held in the object itself (by value, in a Box / Option / Cell / Vec ..), not what it merely points to or shares
    (references, raw pointers, Arc / Rc / Weak)"""
    ty = ty.strip()
    while True:
        m = re.match(r"^(&|\*mut |\*const |mut |'[a-z_]+ )", ty)
        if not m:
            break
        if direct and m.group(1) in ('&', '*mut ', '*const '):
            return set()
        ty = ty[m.end():].strip()
    if not ty or ty == '()':
        return set()
    if ty.startswith('('):
        return set().union(*[_stored_in(F, a_, own, seen, direct) for a_ in _split_top(ty[1:-1])]) if ty.endswith(')') else _textual(ty, own)
    if ty.startswith('['):
        inner = ty[1:-1]
        depth = 0
        for k, ch in enumerate(inner):
            depth += ch in '<(['
            depth -= ch in '>)]'
            if ch == ';' and depth == 0:
                inner = inner[:k]
                break
        return _stored_in(F, inner, own, seen)
    if re.match(r'^(unsafe )?(extern "[^"]*" )?fn\(', ty):
        return set()
    m = re.match(r'^([A-Za-z_][A-Za-z0-9_]*(?:::[A-Za-z_][A-Za-z0-9_]*)*)(<.*>)?$', ty)
    if not m:
        return _textual(ty, own)
    path, gen = m.group(1), m.group(2)
    if gen is None:
        return {path} if path in own else set()
    if path.endswith('PhantomData'):
        return set()
    if direct and re.search(r'(^|::)(Arc|Rc|Weak)$', path):
        return set()
    args = _split_top(gen[1:-1])
    if path in F.adts:
        iown = F.adts[path].get('generics') or []
        ist = _stored_params(F, path, seen, direct)
        out = set()
        for (ip, a_) in zip(iown, [a_ for a_ in args if not a_.startswith("'")]):
            if ip in ist:
                out |= _stored_in(F, a_, own, seen, direct)
        return out
    return set().union(*[_stored_in(F, a_, own, seen, direct) for a_ in args]) if args else set()


def _textual(ty, own):
    return {p for p in own if re.search(r'(?<![A-Za-z0-9_:])%s(?![A-Za-z0-9_])' % re.escape(p), ty)}


def _stored_params(F, adt_path, seen=None, direct=False):
    """type parameters of adt_path of which a value of the type stores (owns or points to) a value"""
    seen = set() if seen is None else seen
    if adt_path in seen:
        return set()
    a = F.adts.get(adt_path)
    if not a:
        return set()
    seen = seen | {adt_path}
    own = a.get('generics') or []
    stored = set()
    for v in a['variants']:
        for fl in v['fields']:
            stored |= _stored_in(F, fl['ty']['s'], own, seen, direct)
    return stored


HANDLE_RE = r'(Sender|Receiver|::InnerSend|::InnerRecv|::FutInnerSend|::FutInnerRecv|::FutInnerUniRecv)$'


def _w19(ctx):
    F = ctx.F
    n = 0
    for im in F.impls:
        tr = im.get('trait') or ''
        if not re.search(r'marker::(Send|Sync)$', tr) or im.get('safety') != 'Unsafe' or im.get('polarity') != 'Positive':
            continue
        st = im['self_ty']
        adt = st.get('adt')
        if not adt or adt not in F.adts or not re.search(HANDLE_RE, adt):
            continue
        own = F.adts[adt].get('generics')
        if own is None:
            raise CheckError('W19: the fact file has no generics for %s' % adt)
        args = st.get('args') or []
        if len(args) != len(own) or not all(re.match(r'^[A-Z][A-Za-z0-9_]*$', a_) for a_ in args):
            continue   # a partially instantiated impl: the witnesses decide it
        n += 1
        which = tr.rsplit('::', 1)[-1]
        stored = _stored_params(F, adt)
        preds = [p_.split(': ', 1) for p_ in im.get('predicates') or [] if ': ' in p_]
        missing = []
        for (p, a_) in zip(own, args):
            if p not in stored:
                continue
            bounds = {b_.rsplit('::', 1)[-1] for (t_, b_) in preds if t_ == a_}
            if any(re.search(r'multiqueue::QueueRW<', b_) for (t_, b_) in preds if t_ == a_):
                continue   # the flavour marker (BCast<T> / MPMC<T>): a zero-sized PhantomData carrier
            # a bound by a trait of this crate (a marker with supertraits, `T: Portable`) is not readable from the impl
            # header: what it implies is decided by the trait-solver witnesses of C19
            local = [b_ for (t_, b_) in preds if t_ == a_ and not re.match(r'^(std|core|alloc)::', b_) and re.match(r'^[a-z_][A-Za-z0-9_]*::', b_)]
            if which not in bounds and not local:
                missing.append(a_)
        ok = not missing
        ctx.add('W19', 'T-WHO', adt, ok, 'unsafe impl %s for %s bounds every parameter the type stores' % (which, short(adt)) if ok else
                'unsafe impl %s for %s does not bound %s, of which the type stores a value: the handle is %s even when that value is not'
                % (which, short(adt), ', '.join('`%s: %s`' % (m_, which) for m_ in missing), which), where='%s:%s' % (im.get('file', '?'), im.get('line', '?')),
                sub='%s|%s' % (which, short(adt)))
    ctx.floor('W19', n, 6, 'unsafe impl Send/Sync for a handle type with all parameters free')
    # the queue object itself is `Send + Sync` for every payload (its unsafe impls are unbounded: it is only reachable
    # through handle types that carry the bounds).  A type that shares the queue directly must therefore carry them
    # too: an explicit `unsafe impl Send` that bounds the payload, and something that keeps it from being auto-Sync
    q = 0
    for path, a in sorted(F.adts.items()):
        flds = [fl for v in a['variants'] for fl in v['fields']]
        # (shared ownership or a raw pointer; a guard that borrows the queue for the duration of a call cannot outlive
        # the handle it was made from)
        if not any(re.search(r'(Arc|Rc|Weak)<multiqueue::MultiQueue<|\*(const|mut) multiqueue::MultiQueue<', fl['ty']['s']) for fl in flds):
            continue
        q += 1
        sends = [im for im in F.impls if (im.get('trait') or '').endswith('marker::Send') and im['self_ty'].get('adt') == path and im.get('polarity') == 'Positive']
        payload_bounded = any(any(re.match(r'^T: (std|core)::marker::Send$', p_) or re.match(r'^T: (?!std::|core::|alloc::)[a-z_][A-Za-z0-9_]*::', p_)
                                  for p_ in im.get('predicates') or []) for im in sends)
        not_sync = any(re.search(r'(^|[<( ])(\*const |\*mut )|cell::(Cell|RefCell|UnsafeCell)<', fl['ty']['s']) for fl in flds)
        sync_impl = [im for im in F.impls if (im.get('trait') or '').endswith('marker::Sync') and im['self_ty'].get('adt') == path and im.get('polarity') == 'Positive']
        ok = payload_bounded and not_sync and not sync_impl
        ctx.add('W19', 'T-WHO', path, ok, '%s shares the queue under an explicit Send impl that bounds the payload, and is not Sync' % short(path) if ok else
                '%s holds the queue object (Arc<MultiQueue<..>>) %s: MultiQueue itself is Send + Sync for every payload, so this type is a handle that can be sent / shared across threads with a payload that is not Send / Sync (and destroys the queued values on whatever thread drops it last)'
                % (short(path), 'without an `unsafe impl Send` of its own that bounds `T: Send`' if not payload_bounded else 'and is (auto-)Sync'),
                sub='queue-share|%s' % short(path))
    ctx.floor('W19', q, 2, 'types that hold the queue object')


# ----------------------------------------------------------------------------------------
# P4r: no reference into a slot's payload leaves the function that performs the receive.  Every receive entry point takes
# `&self`; a `&T` into the ring that is still alive after the stream position moved past the slot is read while a
# writer overwrites (and drops) the value.  Views hand the reference to a closure for the duration of the call only.
# ----------------------------------------------------------------------------------------

def _p4r(ctx):
    F = ctx.F
    n = 0
    for name in sorted(F.fns):
        f = F.fns[name]
        if f['kind'] == 'Closure' or f.get('from_expansion'):
            continue
        ret = f['locals'][0]['ty']['s']
        if '&' not in ret and '*const' not in ret and '*mut' not in ret:
            continue
        if not re.match(r'^(<&?(\'a )?)?(multiqueue|broadcast|mpmc)::', name):
            continue
        n += 1
        g = ctx.graph(name, 'BCast')
        r = g.ev_local(g.root_inst, 0)
        esc = False
        for s in g.walk(r):
            # (shallow: the result of a call - ptr::read(&slot.val), the closure's answer - is a value, not the reference
            # that was passed to it)
            if s[0] == 'ref' and any(p.endswith('QueueEntry.val') for p in g.locpaths(s)):
                esc = True
                break
        ctx.add('P4r', 'T-FLOW', name, not esc, 'no reference to a slot payload is returned' if not esc else
                '%s returns a reference into a slot of the ring (QueueEntry.val): it stays usable after a later receive on the same handle (all receives take &self) handed the slot back, and is then read while a writer overwrites and drops the value'
                % short_fn(name), sub='slot-ref-escapes')
    ctx.floor('P4r', n, 1, 'functions of the queue layers that return a reference or pointer')
    # a view hands `&T` into the slot to a closure for the duration of the call: the closure's bound must be higher-ranked
    # in the reference's lifetime (`for<'r> F: FnOnce(&'r T) -> R`).  With a named lifetime of the method (`&'a self`,
    # `F: FnOnce(&'a T) -> R`) the result type R may contain the reference, which then outlives the position commit
    v = 0
    for im in F.impls:
        adt = im['self_ty'].get('adt') or ''
        if not re.match(r'^(multiqueue|broadcast|mpmc)::', adt):
            continue
        for it in im['items']:
            preds = it.get('predicates')
            if preds is None:
                if it.get('kind') == 'AssocFn':
                    raise CheckError('P4r: the fact file has no method predicates (driver older than the rules)')
                continue
            for p_ in preds:
                m = re.match(r"^(for<([^>]*)> )?(\w+): (Fn|FnMut|FnOnce)\((.*)\)$", p_)
                if not m or '&' not in m.group(5):
                    continue
                v += 1
                bound = set(re.findall(r"'\w+", m.group(2) or ''))
                used = set(re.findall(r"&'(\w+)", m.group(5)))
                free = sorted(l_ for l_ in used if "'" + l_ not in bound)
                ok = not free
                ctx.add('P4r', 'T-WHO', it['path'], ok, 'closure bound is higher-ranked in the lifetime of the reference it is given' if ok else
                        "%s: the closure bound `%s` names a lifetime of the method ('%s) instead of being higher-ranked: the closure's result may contain the `&T` it was given, i.e. a reference into the slot that is still usable after the receive handed the slot back"
                        % (short_fn(it['path']), p_, ", '".join(free)), sub='view-hrtb|%s' % m.group(3))
    ctx.floor('P4r', v, 8, 'closure bounds that take a reference (views, iterators)')


# ----------------------------------------------------------------------------------------
# S6: a receive handle stores no payload.  All receive entry points of a handle (direct, view, blocking, Stream::poll, the
# iterators) draw from the stream through MultiQueue::try_recv / try_recv_view and nothing else; a value parked in the
# handle is (a) skipped by the entry points that were not taught about it - they deliver later values first - and
# (b) already past the stream position, so it is neither covered by back-pressure accounting nor by a stream added
# from this handle.
# ----------------------------------------------------------------------------------------

RECV_HANDLES = r'^multiqueue::(InnerRecv|FutInnerRecv|FutInnerUniRecv|InnerSend|FutInnerSend)$|^(broadcast|mpmc)::\w*(Sender|Receiver)$'


def _s6(ctx):
    F = ctx.F
    n = 0
    for path, a in sorted(F.adts.items()):
        if not re.search(RECV_HANDLES, path) or a.get('kind') != 'Struct':
            continue
        n += 1
        own = a.get('generics') or []
        payload = [p for p in own if p not in ('RW', 'F')]
        bad = []
        for fl in a['variants'][0]['fields']:
            # by value in the handle itself, or in a crate-local type the handle holds by value; what the handle shares
            # (Arc<MultiQueue>) or points to is the ring, not a stash.  The closure of the view handles (`op: F`) is
            # stored by design.
            if re.search(RECV_HANDLES, fl['ty'].get('adt') or ''):
                continue   # an inner handle: reported at its own declaration
            st = _stored_in(F, fl['ty']['s'], own, {path}, direct=True)
            if st & set(payload):
                bad.append('%s: %s' % (fl['name'], fl['ty']['s']))
        ok = not bad
        is_send = path.endswith('Send') or path.endswith('Sender')
        ctx.add('S6', 'T-SIB', path, ok, '%s stores no payload value' % short(path) if ok else
                ('%s stores a payload value in the handle (%s): a send that was answered Ok is not in the ring yet - other senders\' later values overtake it, and it is lost with the handle'
                 if is_send else
                 '%s stores a payload value in the handle (%s): the receive entry points that do not look there (Stream::poll, the views, the iterators all go to the ring directly) deliver later values first, and the parked value is already behind the stream position (not covered by back-pressure, skipped by a stream added from this handle, lost with the handle)')
                % (short(path), '; '.join(bad[:2])), sub='no-stash')
    ctx.floor('S6', n, 17, 'send / receive handle types')


# ----------------------------------------------------------------------------------------
# P12u: no user code runs while a function is walking the published stream list.  The list is protected by the epoch the
# handle announced at the start of its operation; user code (a closure parameter of a public function, Clone / Drop of
# a payload) may re-enter the queue through the same handle (`try_send(&self)`), which announces the current epoch
# again and lets a concurrent reclamation free the list under the walker.
# ----------------------------------------------------------------------------------------

def _p12u(ctx):
    F = ctx.F
    n = 0
    for name in sorted(F.fns):
        f = F.fns[name]
        if f['kind'] == 'Closure' or f.get('from_expansion') or not name.startswith('read_cursor::'):
            continue
        # functions that load the published list pointer themselves
        own_load = False
        for b in f['blocks']:
            t = b['term']
            if t['k'] == 'call' and re.search(r'atomic::Atomic(Ptr)?(::<.*>)?::load$', t.get('fn') or ''):
                own_load = True
        if not own_load:
            continue
        g = ctx.graph(name)
        x = g.x
        loads = [a for a in x.atoms_on('ReadCursor.readers', ops={'load'})]
        if not loads:
            continue
        n += 1
        lset = {a.nid for a in loads}
        users = []
        live = g.live()
        for nd in g.nodes:
            if nd.id not in live or nd.call is None or nd.call.get('inlined') is not None:
                continue
            if nd.call.get('how') != 'closure-unresolved':
                continue
            # a callable that comes in through a parameter of the function and, followed up through the callers, through
            # a parameter of an entry point of the crate: user code (closures written in this crate are not)
            args = g.call_args(nd.id)
            if not args:
                continue
            v = g.strip(args[0])
            while v[0] in ('ref', 'deref'):
                v = g.strip(v[1])
            if v[0] == 'param' and v[1] == g.root_inst and any(k == 'entry' for (k, _v, _w) in arg_leaves(ctx, name, v[2])):
                users.append(nd.id)
        bad = []
        for u in users:
            if any(x.reaches(l_, u) for l_ in lset):
                # .. and the walk goes on afterwards: a position of a listed stream is read behind the call
                after = [a for a in x.atoms_on('ReaderPos.pos_data', ops={'load'}) if x.reaches(u, a.nid)]
                if after:
                    bad.append(g.where(u))
        ok = not bad
        ctx.add('P12u', 'T-ORD', name, ok, 'no user code runs between the load of the stream list and the last use of it' if ok else
                '%s calls user code (%s) while it walks the published stream list: re-entering the queue through the same handle announces the current epoch again and a concurrent reclamation frees the list under the walker'
                % (short_fn(name), ', '.join(sorted(set(bad))[:2])), sub='list-walk')
    ctx.floor('P12u', n, 3, 'functions of read_cursor.rs that load the stream list')


# ----------------------------------------------------------------------------------------
# S7: inside the crate a receive iterator is only driven by adaptors that deliver every element they pull.  `a.zip(b)`
# pulls from `a` before it looks at `b`, `take_while` / `map_while` pull the element that ends them, `peekable` holds
# one back: with a receive iterator on that side the element was taken off the stream (position committed, for a
# move-out queue gone for good) and is dropped inside the adaptor.
# ----------------------------------------------------------------------------------------

LOSSY_ADAPTORS = ('zip', 'take_while', 'map_while', 'peekable')
CRATE_ITER_RE = r'(broadcast|mpmc)::\w*Iter\b'


def _s7(ctx):
    F = ctx.F
    n = 0
    for name in sorted(F.fns):
        f = F.fns[name]
        if f.get('from_expansion'):
            continue
        for b in f['blocks']:
            if b['cleanup']:
                continue
            t = b['term']
            if t['k'] != 'call':
                continue
            m = re.search(r'iter::(?:traits::iterator::)?Iterator::(\w+)$', t.get('fn') or '')
            if not m or not t.get('args'):
                continue
            a0 = t['args'][0]
            ty = (a0.get('pl') or {}).get('ty') or ''
            if not ty and 'pl' in a0:
                ty = f['locals'][a0['pl']['l']]['ty']['s']
            if not re.search(CRATE_ITER_RE, ty):
                continue
            n += 1
            meth = m.group(1)
            ok = meth not in LOSSY_ADAPTORS
            owner = name
            while F.fns[owner]['kind'] == 'Closure' and F.fns[owner].get('parent') in F.fns:
                owner = F.fns[owner]['parent']
            ctx.add('S7', 'T-SIB', owner, ok, 'receive iterator driven by `%s`' % meth if ok else
                    '%s drives a receive iterator (%s) through `%s`, which pulls an element it does not deliver: the value is taken off the stream (position committed; on a move-out queue gone for every consumer) and dropped inside the adaptor'
                    % (short_fn(owner), ty[:60], meth), where='%s:%s' % (f.get('file', '?'), b.get('line', '?')), sub='adaptor|%s' % meth)
    if n == 0:
        # the rule has no subject on a tree that never drives its iterators itself (the reference tree): record that
        ctx.add('S7', 'T-SIB', ctx.fn1(r'^multiqueue::MultiQueue::<.*>::try_recv$'), True, 'no receive iterator is driven by an adaptor inside the crate', sub='none')


# ----------------------------------------------------------------------------------------
# S8: the handle types keep their kinds apart.
#  (a) no function turns a futures receive handle into a plain one: the plain receiver's receives and its destructor do
#      not wake the sink tasks parked on the producer list of the (futures) queue it still reads from;
#  (b) a single-consumer handle gives no access to the multi-consumer API of its stream: no Deref / AsRef / Borrow to
#      another handle type, no Clone - a second consumer next to a view (which takes no pin and commits with a plain
#      store) receives values twice and moves the position backwards.
# ----------------------------------------------------------------------------------------

FUT_RECV_RE = r'(^|::)(FutInnerRecv|FutInnerUniRecv|BroadcastFutReceiver|BroadcastFutUniReceiver|MPMCFutReceiver|MPMCFutUniReceiver)<'
PLAIN_RECV_RE = r'(^|::|<|\(| )(InnerRecv|BroadcastReceiver|BroadcastUniReceiver|MPMCReceiver|MPMCUniReceiver)<'
HANDLE_ADT_RE = r'^(multiqueue::(InnerSend|InnerRecv|FutInnerSend|FutInnerRecv|FutInnerUniRecv)|(broadcast|mpmc)::\w*(Sender|Receiver))$'


def _s8(ctx):
    F = ctx.F
    n = 0
    for im in F.impls:
        adt = im['self_ty'].get('adt') or ''
        for it in im['items']:
            sig = it.get('sig')
            if not sig or '->' not in sig:
                continue
            m = re.match(r"^(?:for<[^>]*> )?(?:unsafe )?fn\((.*)\) -> (.*)$", sig)
            if not m:
                continue
            params, ret = m.group(1), m.group(2)
            first = params.split(', ')[0] if params else ''
            if not re.search(FUT_RECV_RE, first) or first.lstrip().startswith('&'):
                continue   # by-value conversions only (a borrowed futures handle is still there afterwards)
            n += 1
            ok = not (re.search(PLAIN_RECV_RE, ret) and not re.search(FUT_RECV_RE, ret))
            ctx.add('S8', 'T-SIB', it['path'], ok, 'a futures receive handle is only converted into futures receive handles' if ok else
                    '%s turns a futures receive handle into a plain one (%s): receives through it and its destructor free slots / remove the stream without waking the sink tasks parked on the queue\'s producer list'
                    % (short_fn(it['path']), ret[:80]), sub='fut-to-plain')
    ctx.floor('S8', n, 4, 'by-value methods of the futures receive handles')
    uni = 0
    for path in sorted(F.adts):
        if not re.match(HANDLE_ADT_RE, path):
            continue
        is_uni = 'Uni' in path
        uni += is_uni
        bad = []
        for im in F.impls:
            if (im['self_ty'].get('adt') or (im['self_ty'].get('inner') or {}).get('adt')) != path or not im.get('trait'):
                continue
            tr = im['trait']
            if re.search(r'ops::(Deref|DerefMut)$|convert::AsRef$|convert::AsMut$|borrow::Borrow(Mut)?$', tr):
                bad.append(tr.rsplit('::', 1)[-1])
            if is_uni and re.search(r'clone::Clone$', tr):
                bad.append('Clone')
            # every method of a handle takes &self and relies on the handle being used by one thread at a time (Cell
            # state, plain-store commits of the single-consumer paths): a handle type is never Sync
            if re.search(r'marker::Sync$', tr) and im.get('polarity') == 'Positive':
                bad.append('Sync')
        ok = not bad
        ctx.add('S8', 'T-SIB', path, ok, '%s gives no access to another handle kind' % short(path) if ok else
                '%s implements %s: the API of another handle kind (clone, add_stream, the multi-consumer receives) becomes reachable from this handle, or the handle itself from two threads at once; next to a single-consumer view - no pin, plain-store commit - a second consumer receives values twice, moves the stream position backwards, or has the slot overwritten under its closure'
                % (short(path), ', '.join(sorted(set(bad)))), sub='kind-escape')
    ctx.floor('S8', uni, 5, 'single-consumer handle types')


# ----------------------------------------------------------------------------------------
# S9: no state change lives inside a debug assertion.  `debug_assert!(self.writers.fetch_add(1) < MAX)` performs the
# increment only when debug assertions are compiled in: the release build (which the thorough tier also analyses)
# simply lacks it, the quick tier - dev MIR only - sees a complete protocol.  In the dev MIR `cfg!(debug_assertions)`
# is a literal `true` from a macro expansion that a switch tests; the blocks that only this switch's taken edge leads
# to must not contain an atomic write, a lock, a Cell::set or a notification.
# ----------------------------------------------------------------------------------------

EFFECT_RE = r'atomic::Atomic(\w*)(::<.*>)?::(fetch_\w+|store|swap|compare_exchange\w*|compare_and_swap)$|Mutex(::<.*>)?::(lock|try_lock)$|Cell(::<.*>)?::(set|replace|take)$|::notify(_all|_one)?$|Condvar::'


def _s9(ctx):
    F = ctx.F

    def has_effect(fname, depth=0):
        f_ = F.fns.get(fname)
        if f_ is None or depth > 2:
            return False
        for b_ in f_['blocks']:
            t_ = b_['term']
            if t_['k'] == 'call' and not b_['cleanup']:
                nm_ = t_.get('resolved') or t_.get('fn') or ''
                if re.search(EFFECT_RE, nm_) or (nm_ in F.fns and has_effect(nm_, depth + 1)):
                    return True
        return False

    n = 0
    for name in sorted(F.fns):
        f = F.fns[name]
        if f.get('from_expansion'):
            continue
        blocks = f['blocks']
        succs = {}
        for i, b in enumerate(blocks):
            t = b['term']
            k = t['k']
            out = []
            if k == 'goto':
                out = [t['t']]
            elif k == 'switch':
                out = list(t['targets']) + [t['otherwise']]
            elif k in ('call', 'drop', 'assert'):
                out = [t['t']] if t.get('t') is not None else []
            elif k == 'otherterm':
                out = list(t.get('succ') or [])
            succs[i] = [o for o in out if o is not None and o < len(blocks) and not blocks[o]['cleanup']]

        def reach(skip_edge=None):
            seen, st = set(), [0]
            while st:
                x_ = st.pop()
                if x_ in seen:
                    continue
                seen.add(x_)
                for y_ in succs.get(x_, ()):
                    if (x_, y_) != skip_edge:
                        st.append(y_)
            return seen
        allb = None
        for i, b in enumerate(blocks):
            t = b['term']
            if t['k'] != 'switch' or not b.get('exp') or t['op'].get('k') not in ('copy', 'move') or t['op']['pl']['p']:
                continue
            l = t['op']['pl']['l']
            lit = [s for s in b['stmts'] if s['k'] == 'assign' and s['pl']['l'] == l and not s['pl']['p'] and s.get('exp') and
                   s['rv']['k'] == 'use' and s['rv']['op']['k'] == 'const' and s['rv']['op'].get('v') is not None and (s['rv']['op'].get('ty') in ('bool', None) or True)]
            if not lit:
                continue
            v = str(lit[-1]['rv']['op']['v'])
            taken = None
            for val, tg in zip(t['vals'], t['targets']):
                if str(val) == v:
                    taken = tg
            if taken is None:
                taken = t['otherwise']
            n += 1
            if allb is None:
                allb = reach()
            controlled = allb - reach(skip_edge=(i, taken))
            bad = []
            for c in sorted(controlled):
                tc = blocks[c]['term']
                if tc['k'] == 'call':
                    nm = tc.get('resolved') or tc.get('fn') or ''
                    if re.search(EFFECT_RE, nm) or (nm in F.fns and has_effect(nm)):
                        bad.append('%s (line %s)' % (short_fn(nm), blocks[c].get('line')))
            owner = name
            while F.fns[owner]['kind'] == 'Closure' and F.fns[owner].get('parent') in F.fns:
                owner = F.fns[owner]['parent']
            ok = not bad
            ctx.add('S9', 'T-SIB', owner, ok, 'a debug-only block without state changes' if ok else
                    '%s performs %s inside a block that only exists when debug assertions are compiled in (`debug_assert!(..)` / `if cfg!(debug_assertions)`): the release build lacks the state change'
                    % (short_fn(owner), ', '.join(bad[:2])), where='%s:%s' % (f.get('file', '?'), b.get('line', '?')), sub='debug-only|bb%d' % i)
    if n == 0:
        ctx.add('S9', 'T-SIB', ctx.fn1(r'^multiqueue::MultiQueue::<.*>::try_recv$'), True, 'no debug-only block in the crate (dev MIR) or the tree is analysed without debug assertions', sub='none')
