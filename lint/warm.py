"""setup: warm the dependency target dirs (dev + release) so that checks only re-check the crate itself"""
import os, sys
sys.path.insert(0, os.path.dirname(os.path.abspath(__file__)))
import extract
for cfg in ('dev', 'release'):
    p, dt = extract.extract(config=cfg)
    os.remove(p)
    print('warmed', cfg, '%.1fs' % dt)
