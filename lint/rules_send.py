"""Send-side rules: W1 W2 W5 W15 P1a-g P2a-e O1(send) O2(send) C13map  (DESIGN.md section 4)."""
import re
from core import CheckError, short, short_fn
from engine import is_const, has_release, has_acquire

FLAVOURS = ('BCast', 'MPMC')
WRITE_OPS = {'store', 'swap', 'fetch_add', 'fetch_sub', 'fetch_or', 'fetch_and', 'fetch_xor',
             'compare_exchange', 'compare_exchange_weak', 'compare_and_swap', 'fetch_update',
             'fetch_max', 'fetch_min'}
CAS_OPS = {'compare_exchange', 'compare_exchange_weak', 'compare_and_swap'}
PAYLOAD_READ = r'(^|::)ptr::(read|read_volatile|read_unaligned|replace|swap)$|mem::(replace|swap|take)$|clone::Clone::clone$|(^|::)ptr::drop_in_place$'
PAYLOAD_ANY = r'(^|::)ptr::(read|read_volatile|read_unaligned|write|write_volatile|write_unaligned|replace|swap|drop_in_place|copy|copy_nonoverlapping|write_bytes)$|mem::(replace|swap|take|drop|forget)$|clone::Clone::clone$'


def fns_mentioning(F, adt_short, field):
    """crate functions whose own body names field `adt.field` in any place"""
    out = []
    for name, f in F.fns.items():
        hit = False

        def scan_place(pl):
            for e in pl['p']:
                if isinstance(e, dict) and e.get('f') == field and short(e.get('adt')) == adt_short:
                    return True
            return False

        def scan_op(o):
            return o.get('k') in ('copy', 'move') and scan_place(o['pl'])

        for b in f['blocks']:
            if b['cleanup']:
                continue
            for s in b['stmts']:
                if s['k'] == 'assign':
                    if scan_place(s['pl']):
                        hit = True
                    rv = s['rv']
                    for key in ('pl',):
                        if key in rv and scan_place(rv[key]):
                            hit = True
                    for key in ('op', 'a', 'b'):
                        if key in rv and isinstance(rv[key], dict) and scan_op(rv[key]):
                            hit = True
                    for o in rv.get('ops', []):
                        if scan_op(o):
                            hit = True
            t = b['term']
            for o in t.get('args', []):
                if scan_op(o):
                    hit = True
            if 'pl' in t and scan_place(t['pl']):
                hit = True
            if 'op' in t and scan_op(t['op']):
                hit = True
        if hit:
            out.append(name)
    return out


_CALLED = {}


def is_dead(F, name):
    """a private function that nothing in the crate calls (left-over helper): it cannot execute"""
    f = F.fns[name]
    if f['kind'] == 'Closure' or f.get('impl_trait') or 'Public' in (f.get('vis') or 'Public'):
        return False
    key = id(F)
    if key not in _CALLED:
        called = set()
        for n_, f_ in F.fns.items():
            for b in f_['blocks']:
                t = b['term']
                if t['k'] == 'call' and 'fn' in t:
                    called.add(t['fn'])
                    if t.get('resolved'):
                        called.add(t['resolved'])
                for st in b['stmts']:
                    if st['k'] == 'assign':
                        for o in [st['rv'].get('op')] + st['rv'].get('ops', []):
                            if isinstance(o, dict) and o.get('fn'):
                                called.add(o['fn'])
                for o in t.get('args', []):
                    if isinstance(o, dict) and o.get('fn'):
                        called.add(o['fn'])
        _CALLED[key] = called
    return name not in _CALLED[key]


def constructs(F, fn, adt_short):
    """does fn's own body build an aggregate of that ADT"""
    for b in F.fns[fn]['blocks']:
        for s in b['stmts']:
            if s['k'] == 'assign' and s['rv']['k'] == 'agg' and s['rv']['ak'] == 'adt' and short(s['rv']['adt']) == adt_short:
                return True
    return False


def site_key(g, nid):
    """(function answerable for the node, block): helper functions that do not exist in the reference tree count as
    the function that calls them"""
    n = g.nodes[nid]
    home = g.insts[g.x.home(nid)].fn
    return (home, n.bb if home == n.fn else '%s.bb%d' % (n.fn, n.bb))


def index_sources(x, e):
    """atomic events feeding the index of a `base.offset(idx)` inside pointer expression e;
    None if there is no offset"""
    g = x.g
    found = None
    for c in x.calls_in(e, deep=True):
        nm = g.call_name(c) or ''
        if re.search(r'<impl \*(mut|const) T>::(offset|add|wrapping_add|wrapping_offset)$', nm):
            args = g.call_args(c)
            if len(args) > 1:
                found = (found or []) + x.loads_in(args[1])
    return found


def send_entry(ctx):
    return ctx.fn1(r'^multiqueue::InnerSend::<.*>::try_send$')


def run(ctx):
    ctx.step(_run, ctx)


def _run(ctx):
    F = ctx.F
    root = send_entry(ctx)
    no_reader_bit = _no_reader_bit(ctx)
    for fl in FLAVOURS:
        g = ctx.graph(root, fl)
        x = g.x
        ctx.step(_p1, ctx, g, x, root, fl)
        ctx.step(_p2, ctx, g, x, root, fl, no_reader_bit)
    ctx.step(_who_may_write, ctx, root)
    ctx.step(_clone_send, ctx)


# --------------------------------------------------------------------------------------------

def _no_reader_bit(ctx):
    """the bit of the signal word that says "no stream is left": the mask LoadedSignal::get_reader tests (how the bit
    is raised is the business of the setter rule W10)"""
    from rules_extra import _bit_test_const
    fn = ctx.fn1(r'^atomicsignal::LoadedSignal::get_reader$')
    g = ctx.graph(fn)
    m = _bit_test_const(g, g.ev_local(g.root_inst, 0))
    if m is None:
        fn = ctx.fn1(r'^atomicsignal::AtomicSignal::set_reader$')
        g = ctx.graph(fn)
        ors = g.x.atoms_on('AtomicSignal.flags', ops={'fetch_or'})
        if len(ors) == 1:
            v = g.strip(g.call_args(ors[0].nid)[1])
            if v[0] == 'c' and v[1] is not None:
                m = str(v[1])
    if m is None:
        raise CheckError('anchor: the no-reader bit of the signal word could not be determined (get_reader / set_reader)')
    return str(m)


def _head(x):
    return [a for a in x.atoms.values() if a.on('MultiQueue.head/')]


def _p1(ctx, g, x, root, fl):
    F = ctx.F
    heads = _head(x)
    H = {a.nid for a in heads if a.op == 'load' or a.op in CAS_OPS}
    claims = [a for a in heads if a.op in WRITE_OPS]
    csites = {x.site(a.nid) for a in claims}
    ctx.floor('P1', len(csites), 2, 'claim events on MultiQueue.head reachable from InnerSend::try_send (%s)' % fl)
    kinds = {('cas' if a.op in CAS_OPS else a.op) for a in claims}
    ctx.add('W1', 'T-WHO', root, kinds == {'cas', 'store'},
            'claim kinds on head = %s (expected one CAS site for the multi-writer path and one plain store for the single-writer path)' % sorted(kinds),
            flavour=fl, sub='kinds')
    # fullness switches
    FS = []
    for t in x.tests(('Eq',)):
        la = x.loads_in(t.a)
        lb = x.loads_in(t.b)
        for (p, q) in ((la, lb), (lb, la)):
            if any(a.nid in H for a in p) and any(a.on('MultiQueue.tail_cache', 'ReaderPos.pos_data') for a in q):
                FS.append((t.sid, t))
                break
    ctx.floor('P1a', len({x.site(s) for s, _ in FS}), 2, 'fullness tests (head-N == tail) in the send graph (%s)' % fl)
    # the tail a send is re-tested against must be current: the scan result, the value a *failed*
    # exchange observed, or a load -- never the pre-exchange value handed back by a successful CAS/swap
    for sid, _op in FS:
        e = g.strip(g.switch_expr(sid))
        stale = []
        for s_ in g.walk(e):
            if s_[0] == 'dc' and s_[2] == 'Ok' and g.strip(s_[1])[0] == 'call':
                c_ = x.rep(g.strip(s_[1])[1])
                if c_ in x.atoms and x.atoms[c_].on('MultiQueue.tail_cache') and x.atoms[c_].op in CAS_OPS:
                    stale.append(x.describe(c_))
            if s_[0] == 'call' and x.rep(s_[1]) in x.atoms and x.atoms[x.rep(s_[1])].on('MultiQueue.tail_cache') and \
                    x.atoms[x.rep(s_[1])].op in ('swap', 'fetch_add', 'fetch_sub', 'fetch_max', 'fetch_min'):
                stale.append(x.describe(x.rep(s_[1])))
        ctx.add('P1b', 'T-FLOW', g.nodes[sid].fn, not stale,
                'the tail value a send is (re-)tested against is never the pre-exchange value of the cache' if not stale else
                'fullness test uses the value a SUCCESSFUL exchange on the tail cache returned (%s): that is the stale pre-exchange tail, so a send is refused as Full although the scan just found room' % stale[0],
                flavour=fl, where=g.where(sid), sub='fresh-value#i%d.bb%d' % (g.nodes[sid].inst, g.nodes[sid].bb))
    fs_nodes = x.expand_sites([s for s, _ in FS])
    notfull_edges = set()
    full_edges = set()
    for sid, t in FS:
        notfull_edges.update(t.false)
        full_edges.update(t.true)
    readers_loads = {a.nid for a in x.atoms_on('ReadCursor.readers', ops={'load'})}
    pin_switches = [sid for sid in x.switches()
                    if any(a.on('RefCnt.refcnt') for a in x.loads_in(g.switch_expr(sid)))]
    has_pins = bool(pin_switches)
    W = [n for n in x.ext_calls(r'(^|::)ptr::write(_volatile|_unaligned)?$')
         if any('QueueEntry.val' in p for p in g.locpaths(g.call_args(n)[0]))]
    P = [a.nid for a in x.atoms_on('QueueEntry.wraps', ops=WRITE_OPS)]
    payload = ('param', g.root_inst, 2)

    for c in claims:
        C = c.nid
        fn = g.nodes[C].fn
        # enclosing send function = the instance chain element below the root
        sub = '%s|%s' % (c.op if c.op not in CAS_OPS else 'cas', g.chain(C).split(' > ')[1] if ' > ' in g.chain(C) else '-')
        isub = '%s#i%d' % (sub, g.nodes[C].inst)
        where = g.where(C)
        # ---- P1a: fullness test of the current transaction before the claim, every iteration
        bad = []
        blocked = fs_nodes | (H - {C})
        for h in sorted(H):
            if C in x.reach_from(h, blocked=blocked):
                bad.append(x.describe(h))
        if C in x.reachable_entry(blocked=blocked):
            bad.append('entry')
        ctx.add('P1a', 'T-MUST', fn, not bad,
                'claim %s is %s preceded by a fullness test of the transaction being claimed on every path from a head observation'
                % (x.describe(C), 'not' if bad else ''), flavour=fl, where=where, witness=bad, sub=isub)
        ok = x.dom(notfull_edges, C)
        ctx.add('P1a', 'T-GUARD', fn, ok,
                'claim is reached only through a "not full" edge of a fullness test' if ok else
                'claim %s reachable without passing the not-full edge of a fullness test' % x.describe(C),
                flavour=fl, where=where, sub=isub + '|edge')
        # ---- P1c: pinned slot refuses
        if has_pins:
            # check_ref(): the pin count of the claimed slot, compared with zero (in whatever form)
            def _pin_load(e_):
                if e_[0] != 'call' or x.rep(e_[1]) not in x.atoms or not x.atoms[x.rep(e_[1])].on('RefCnt.refcnt'):
                    return False
                src = index_sources(x, g.call_args(e_[1])[0]) or []
                return bool(src) and all(s.nid in H for s in src)
            okedges, _nz, _hit = x.zero_tests(_pin_load)
            ok = bool(okedges) and x.dom(okedges, C)
            ctx.add('P1c', 'T-DOM', fn, ok,
                    'claim dominated by the "slot not pinned" edge (pin count of the slot indexed by the claimed transaction)' if ok
                    else 'claim %s not dominated by a pin-count test of the claimed slot' % x.describe(C),
                    flavour=fl, where=where, sub=isub)
        # ---- success region
        if c.op in CAS_OPS:
            succ_edges = set()
            for sid in x.switches():
                e = g.strip(g.switch_expr(sid))
                if e[0] == 'discr' and g.strip(e[1])[0] == 'call' and x.rep(g.strip(e[1])[1]) == x.rep(C):
                    succ_edges.update(x.switch_edges(sid, '0'))
            starts = succ_edges
            exp = g.call_args(C)[1]
            srcs = x.loads_in(exp)
            ctx.add('P1d', 'T-FLOW', fn, bool(srcs) and all(s.nid in H for s in srcs),
                    'CAS expects the head value the slot index and tag were computed from', flavour=fl, where=where, sub=isub + '|expected')
        else:
            starts = {C}
        myW = [w for w in W if any(x.reaches(s, w, blocked=H - {C}) or s == w for s in starts)]
        myP = [p for p in P if any(x.reaches(s, p, blocked=H - {C}) for s in starts)]
        if c.op in CAS_OPS:
            ok = bool(myW) and bool(starts) and all(x.dom(starts | (set(W) - set(myW)), w) for w in myW)
            ctx.add('P1d', 'T-DOM', fn, ok,
                    'payload write dominated by the CAS-success edge of the claim' if ok else
                    'payload write not dominated by the CAS-success edge (a failed claim could write the slot)', flavour=fl, where=where, sub=isub)
        # ---- P1e: claim -> write -> publish -> return
        ok_w = bool(myW) and all(x.must(s, set(myW)) for s in starts)
        ok_p = bool(myP) and all(x.must(s, set(myP)) for s in starts)
        order = all(not x.reaches(s, p, blocked=set(myW)) for s in starts for p in myP)
        ctx.add('P1e', 'T-MUST', fn, ok_w and ok_p and order,
                'after the claim every path: write payload -> publish tag -> return' if (ok_w and ok_p and order) else
                'after claim %s: write on all paths=%s, publish on all paths=%s, write precedes publish=%s' % (x.describe(C), ok_w, ok_p, order),
                flavour=fl, where=where, sub=isub)
        for w in myW:
            args = g.call_args(w)
            src = index_sources(x, args[0])
            ok = bool(src) and all(s.nid in H for s in src)
            ctx.add('P1e', 'T-FLOW', fn, ok, 'written slot is indexed by the claimed transaction' if ok else
                    'slot written by %s is not indexed by the claimed head value' % x.describe(w), flavour=fl, where=g.where(w), sub=isub + '|slot')
            okv = len(args) > 1 and g.strip(args[1]) == payload
            ctx.add('P1f', 'T-FLOW', fn, okv, 'the value written into the slot is the payload parameter' if okv else
                    'value written into the slot is not the payload parameter', flavour=fl, where=g.where(w), sub=isub + '|value')
        for p in myP:
            a = x.atoms[p]
            args = g.call_args(p)
            src = index_sources(x, args[0])
            ok = bool(src) and all(s.nid in H for s in src)
            tagv = args[1]
            tsrc = x.loads_in(tagv)
            arith = [s for s in g.walk(tagv) if s[0] in ('bin', 'un') or (s[0] == 'call' and s[1] not in H)]
            ok2 = bool(tsrc) and all(s.nid in H for s in tsrc) and not arith
            ctx.add('P1e', 'T-FLOW', fn, ok and ok2,
                    'published tag is the claimed count, stored into the claimed slot' if ok and ok2 else
                    'published tag/slot does not derive (unmodified) from the claimed transaction', flavour=fl, where=g.where(p), sub=isub + '|tag')
            # O1: Release publication
            rel = has_release(a.ords[0]) if a.ords else False
            if not rel:
                rel = any(has_release(o) and x.dom({fn_}, p) and any(x.reaches(w, fn_) for w in myW)
                          for (fn_, o, _) in x.fences)
            ctx.add('O1', 'T-ORD', fn, rel, 'tag publication carries Release (ordering or preceding fence)' if rel else
                    'tag publication %s is not Release and no Release fence separates it from the payload write' % x.describe(p),
                    flavour=fl, where=g.where(p), sub=isub)
        # ---- old value handling between claim and write
        region = set()
        for s in starts:
            region |= x.reach_from(s, blocked=set(myP)) | {s}
        reads = [n for n in x.ext_calls(PAYLOAD_READ) if n in region
                 and any('QueueEntry.val' in p for a in g.call_args(n)[:1] for p in g.locpaths(a))]
        if fl == 'BCast':
            tag_sw = [sid for sid in x.switches() if sid in region
                      and any(a.on('QueueEntry.wraps') for a in x.loads_in(g.switch_expr(sid)))]
            ok = False
            msg = 'overwritten value is not read out for dropping'
            if reads and tag_sw:
                untagged, _t, _h = x.zero_tests(lambda e_: e_[0] == 'bin' and e_[1] == 'BitAnd' and
                                                any(a.on('QueueEntry.wraps') for a in x.loads_in(e_)), within=set(tag_sw))
                # read iff untagged: read dominated by untagged edge; from untagged edge the write is not reachable without the read
                c1 = all(x.dom(untagged, r) for r in reads)
                c2 = all(not x.reaches(e_, w, blocked=set(reads)) for e_ in untagged for w in myW)
                # the value read is dropped (by scope end) on every path, after the write
                drops = [n.id for n in g.nodes if n.id in g.live() and n.kind == 'block' and n.term['k'] == 'drop'
                         and any(r in x.calls_in(g.ev_place(n.inst, n.term['pl'])) for r in reads)]
                c3 = bool(drops) and all(x.must(r, set(drops)) for r in reads)
                c4 = all(not x.reaches(s, d, blocked=set(myW)) for s in starts for d in drops)
                ok = c1 and c2 and c3 and c4
                msg = 'old value read iff slot untagged=%s/%s, dropped on every path=%s, drop after the write=%s' % (c1, c2, c3, c4)
            ctx.add('P1e', 'T-GUARD', fn, ok, msg, flavour=fl, where=where, sub=isub + '|olddrop')
        else:
            ctx.add('P1e', 'T-GUARD', fn, not reads,
                    'move-out flavour: the writer never reads/drops slot content' if not reads else
                    'move-out flavour: writer touches old slot content at %s' % [x.describe(r) for r in reads],
                    flavour=fl, where=where, sub=isub + '|olddrop')
        # ---- P1g: unit step
        newv = g.call_args(C)[2] if c.op in CAS_OPS else g.call_args(C)[1]
        steps = []
        for s in g.walk(newv):
            if s[0] == 'call' and re.search(r'wrapping_add$|checked_add$|unchecked_add$', g.call_name(s[1]) or ''):
                a = g.call_args(s[1])
                steps.append(g.strip(a[1]))
            if s[0] == 'bin' and s[1] in ('Add', 'AddUnchecked', 'AddWithOverflow'):
                steps.append(g.strip(s[3]))
        ok = len(steps) == 1 and steps[0][0] == 'c' and str(steps[0][1]) == '1' and all(s.nid in H for s in x.loads_in(newv))
        ctx.add('P1g', 'T-FLOW', fn, ok, 'claim advances head by exactly 1 from the observed value' if ok else
                'claim does not advance head by the constant 1 (steps=%s)' % (steps,), flavour=fl, where=where, sub=isub)

    # ---- P1b / Full construction sites
    fulls = x.aggs(r'TrySendError::Full$')
    for (nid, si, rv) in fulls:
        fn = g.nodes[nid].fn
        sub = 'full#i%d.bb%d' % (g.nodes[nid].inst, g.nodes[nid].bb)
        e = x.agg_expr(nid, si)
        okv = len(e[4]) == 1 and g.strip(e[4][0]) == payload
        ctx.add('P1f', 'T-FLOW', fn, okv, 'refused payload is handed back unchanged in the error' if okv else
                'Full does not carry the payload parameter', flavour=fl, where=g.where(nid), sub=sub)
        _z, pinned_edges, _h = x.zero_tests(lambda e_: e_[0] == 'call' and x.rep(e_[1]) in x.atoms and x.atoms[x.rep(e_[1])].on('RefCnt.refcnt'))
        pin_kind = bool(pinned_edges) and x.dom(pinned_edges, nid)
        if pin_kind:
            ctx.add('P1c', 'T-GUARD', fn, True, 'Full on a pinned slot', flavour=fl, where=g.where(nid), sub=sub)
            continue
        if x.home(nid) == g.root_inst:
            # handled by the C13 map rule (no-reader branch of the entry point)
            continue
        # capacity Full: fresh scan in this call, on the full edge of a fullness test
        # (one Full for both reasons - `if !has_room(..) || !check_ref(..) { return Full }` - is reached on the pinned edge
        # without a scan: those paths are the pinned kind, the others must have scanned)
        pe = set(pinned_edges)
        bad = []
        for h in sorted(H):
            if nid in x.reach_from(h, blocked=readers_loads | (H - {h}) | pe):
                bad.append(x.describe(h))
        if nid in x.reachable_entry(blocked=readers_loads | H | pe):
            bad.append('entry')
        ok = not bad and x.dom(set(full_edges) | pe, nid)
        ctx.add('P1b', 'T-DOM', fn, ok,
                'capacity Full only after a fresh scan of the stream list in this call, on the full edge' if ok else
                'Full at %s reachable without re-scanning the stream list after the head observation (%s) / not on a full edge' % (g.where(nid), bad),
                flavour=fl, where=g.where(nid), witness=bad, sub=sub)
    # ---- P1f: payload consumed exactly once
    drops = [n.id for n in g.nodes if n.id in g.live() and n.kind == 'block' and n.term['k'] == 'drop'
             and g.strip(g.ev_place(n.inst, n.term['pl'])) == payload]
    consumers = []
    for n in g.nodes:
        if n.id not in g.live() or n.call is None or n.call['inlined'] is not None:
            continue
        if n.call.get('how') == 'tail-recursion':
            continue   # `return self.try_send(val)`: the next round of the same function, with the same payload
        for i, a in enumerate(g.call_args(n.id)):
            if g.strip(a) == payload and not (x.rep(n.id) in W and i == 1):
                consumers.append(x.describe(n.id))
    ctx.add('P1f', 'T-FLOW', root, not drops and not consumers,
            'payload is never dropped or consumed by the send path other than by the slot write' if not drops and not consumers else
            'payload dropped/consumed at %s' % ([x.describe(d) for d in drops] + consumers), flavour=fl, sub='once')
    carriers = {nid for (nid, si, rv) in x.aggs(r'TrySendError::(Full|Disconnected)$')
                if any(g.strip(o) == payload for o in x.agg_expr(nid, si)[4])}
    ok = not (x.reachable_entry(blocked=set(W) | carriers) & set(g.exits))
    ctx.add('P1f', 'T-MUST', root, ok, 'every return either stored the payload in a slot or hands it back' if ok else
            'a return path neither stores nor hands back the payload', flavour=fl, sub='all-exits')
    # O2: acquire before the claim
    for c in claims:
        C = c.nid
        acq = [fn_ for (fn_, o, _) in x.fences if has_acquire(o)]
        pos_loads = x.atoms_on('ReaderPos.pos_data', ops={'load'})
        ok = (any(x.dom({f_}, C) for f_ in acq)) or (pos_loads and all(has_acquire(a.ords[0]) for a in pos_loads if a.ords))
        ctx.add('O2', 'T-ORD', g.nodes[C].fn, bool(ok), 'stream positions are acquired before the slot is claimed (fence or load ordering)' if ok else
                'no Acquire between reading stream positions and claiming the slot', flavour=fl, where=g.where(C),
                sub='writer#i%d' % g.nodes[C].inst)


def _p2(ctx, g, x, root, fl, no_reader_bit):
    F = ctx.F
    heads = _head(x)
    claims = [a for a in heads if a.op in WRITE_OPS]
    payload = ('param', g.root_inst, 2)
    # state discriminants
    _, qs = F.adt('multiqueue::QueueState')
    vnames = [v['name'] for v in qs['variants']]
    if 'Uni' not in vnames or 'Multi' not in vnames:
        raise CheckError('anchor: QueueState::{Uni,Multi}')
    uni = str(vnames.index('Uni'))
    def _is_state(e_):
        if e_[0] != 'discr':
            return False
        inner = g.strip(e_[1])
        return inner[0] == 'call' and bool(re.search(r'Cell(::<.*>)?::get$', g.call_name(inner[1]) or '')) \
            and any('InnerSend.state' in p for p in g.locpaths(g.call_args(inner[1])[0]))
    uni_edges, _f, _h = x.eq_tests(lambda a_, b_: _is_state(a_) and is_const(b_, uni))
    if len(vnames) == 2:
        # two modes: "not Multi" (`if let Multi = state {..} else {..}`) is Uni
        multi = str(vnames.index('Multi'))
        _t, not_multi, _h2 = x.eq_tests(lambda a_, b_: _is_state(a_) and is_const(b_, multi))
        uni_edges = set(uni_edges) | set(not_multi)

    def _is_writers(e_):
        return e_[0] == 'call' and x.rep(e_[1]) in x.atoms and x.atoms[x.rep(e_[1])].on('MultiQueue.writers') and x.atoms[x.rep(e_[1])].op == 'load'
    one_edges, _f, _h = x.eq_tests(lambda a_, b_: _is_writers(a_) and is_const(b_, 1))
    wload = None
    for t_ in _h:
        for o_ in (t_.a, t_.b):
            if _is_writers(o_):
                wload = x.rep(o_[1])
    for c in claims:
        if c.op in CAS_OPS:
            continue
        C = c.nid
        ok = x.dom(uni_edges | one_edges, C)
        ctx.add('P2a', 'T-GUARD', g.nodes[C].fn, ok,
                'plain-store claim only on state==Uni or on the writers==1 edge' if ok else
                'plain-store claim %s reachable without state==Uni / writers==1' % x.describe(C), flavour=fl, where=g.where(C),
                sub='i%d' % g.nodes[C].inst)
    # tail_cache plain stores are single-writer only as well (W5)
    for a in x.atoms_on('MultiQueue.tail_cache', ops=WRITE_OPS):
        if a.op in CAS_OPS:
            continue
        ok = x.dom(uni_edges | one_edges, a.nid)
        ctx.add('W5', 'T-GUARD', g.nodes[a.nid].fn, ok, 'plain store to the tail cache only in the single-writer path' if ok else
                'plain store to tail_cache %s reachable in multi-writer mode' % x.describe(a.nid), flavour=fl, where=g.where(a.nid),
                sub='i%d' % g.nodes[a.nid].inst)
    # P2b: Uni stored only on the writers==1 edge after an Acquire fence
    sets = [n for n in x.ext_calls(r'Cell(::<.*>)?::(set|replace)$')
            if any('InnerSend.state' in p for p in g.locpaths(g.call_args(n)[0]))]
    for n in sets:
        v = g.strip(g.call_args(n)[1])
        if v[0] == 'agg' and v[2].endswith('QueueState::Uni'):
            acq = [f_ for (f_, o, _) in x.fences if has_acquire(o) and x.dom(one_edges, f_)]
            ok = x.dom(one_edges, n) and any(x.dom({f_}, n) for f_ in acq)
            ctx.add('P2b', 'T-GUARD', g.nodes[n].fn, ok, 'state:=Uni only on the writers==1 edge, after an Acquire fence' if ok else
                    'state:=Uni at %s not guarded by writers==1 + Acquire fence' % g.where(n), flavour=fl, where=g.where(n), sub='set')
            # ... and right there: the observation "writers == 1" is only good until other code runs. A send attempt between
            # the observation and the downgrade runs user code (the destructor of the recycled value), which can clone this
            # very handle - Clone marks it Multi, the late downgrade marks it Uni again while a second writer exists
            mid = [c_ for c_ in claims if wload is not None and x.reaches(wload, c_.nid) and x.reaches(c_.nid, n)
                   and n in x.reach_from(c_.nid, blocked={wload})]
            ctx.add('P2b', 'T-ORD', g.nodes[n].fn, not mid, 'the downgrade to single-writer mode directly follows the observation writers==1 (no send attempt in between)' if not mid else
                    'state:=Uni at %s is stored after a send attempt that follows the observation writers==1 (%s): the attempt can run user code (Drop of the recycled value) that clones this sender - the handle is then marked single-writer while a second writer exists'
                    % (g.where(n), x.describe(mid[0].nid)), flavour=fl, where=g.where(n), sub='set-after-attempt')
        elif v[0] != 'agg':
            ctx.add('P2b', 'T-GUARD', g.nodes[n].fn, False, 'state set to a non-constant value', flavour=fl, where=g.where(n), sub='set?')
    # P2c: the signal word is loaded and handled before any claim; no-reader => Disconnected
    sig = x.atoms_on('AtomicSignal.flags', ops={'load'})
    signodes = {a.nid for a in sig}
    for c in claims:
        ok = x.dom(signodes, c.nid)
        ctx.add('P2c', 'T-DOM', root, ok, 'signal word examined before the claim' if ok else 'claim reachable without examining the signal word',
                flavour=fl, where=g.where(c.nid), sub='i%d' % g.nodes[c.nid].inst)
    def _nr_bit(e_):
        if e_[0] != 'bin' or e_[1] != 'BitAnd':
            return False
        for m, k in ((g.strip(e_[2]), g.strip(e_[3])), (g.strip(e_[3]), g.strip(e_[2]))):
            if is_const(k, no_reader_bit) and m[0] == 'call' and x.rep(m[1]) in signodes:
                return True
        return False
    _z, nr_edges, _h = x.zero_tests(_nr_bit)
    _sigfree, _nz, _h = x.zero_tests(lambda e_: e_[0] == 'call' and x.rep(e_[1]) in signodes)
    ctx.add('C13map', 'T-GUARD', root, bool(nr_edges), 'the send entry point tests the no-reader bit of the signal word' if nr_edges else
            'the send entry point never tests the no-reader bit (value %s) of the signal word it loaded' % no_reader_bit, flavour=fl, sub='tested')
    for c in claims:
        notnr = set()
        for e_ in nr_edges:
            sw = g.nodes[e_].edge[0]
            notnr.update(s_ for s_ in g.nodes[sw].succs if s_ not in nr_edges)
        sigfree = set(_sigfree)
        ok = bool(nr_edges) and x.dom(notnr | sigfree, c.nid)
        ctx.add('C13map', 'T-DOM', root, ok, 'claim only after the signal word was seen clear / without the no-reader bit' if ok else
                'claim %s reachable without having tested the no-reader bit' % x.describe(c.nid), flavour=fl, where=g.where(c.nid),
                sub='guard#i%d' % g.nodes[c.nid].inst)
    reach = set()
    for e_ in nr_edges:
        reach |= x.reach_from(e_) | {e_}
    bad_claims = [x.describe(c.nid) for c in claims if c.nid in reach]
    ctx.add('C13map', 'T-REACH', root, not bad_claims, 'no claim is reachable once the no-reader bit was seen' if not bad_claims else
            'claim reachable after the no-reader bit was seen: %s' % bad_claims, flavour=fl, sub='noclaim')
    errs = [(nid, si, rv) for (nid, si, rv) in x.aggs(r'TrySendError::(Full|Disconnected)$') if nid in reach and x.home(nid) == g.root_inst]
    ok = bool(errs) and all(rv['variant'] == 'Disconnected' and g.strip(x.agg_expr(nid, si)[4][0]) == payload for (nid, si, rv) in errs)
    ctx.add('C13map', 'T-MAP', root, ok,
            'no-reader branch returns Err(TrySendError::Disconnected(payload))' if ok else
            'no-reader branch of try_send builds %s instead of TrySendError::Disconnected(payload)' % [rv['variant'] for (_, _, rv) in errs],
            flavour=fl, where=x.where_stmt(errs[0][0], errs[0][1]) if errs else None, sub='variant')
    # every exit reachable from the no-reader edge is such an error return
    if nr_edges:
        blocked = {nid for (nid, si, rv) in errs}
        leak = any((x.reach_from(e_, blocked=blocked) & set(g.exits)) for e_ in nr_edges)
        ctx.add('C13map', 'T-MUST', root, not leak, 'the no-reader edge leads only to that error return' if not leak else
                'a path from the no-reader edge returns without the Disconnected error', flavour=fl, sub='only')
    # P2d: notify after a successful send when the waiter needs it
    pubs = [a.nid for a in x.atoms_on('QueueEntry.wraps', ops=WRITE_OPS)]
    notifies = set(x.ext_calls(r'wait::Wait::notify$'))
    nn_false, nn_true, _h = x.zero_tests(lambda e_: e_[0] != 'bin' and any(s_[0] == 'fld' and s_[2] == 'MultiQueue.needs_notify' for s_ in g.walk(e_)))
    for p in pubs:
        ok = x.must(p, notifies | nn_false)
        ctx.add('P2d', 'T-MUST', root, ok, 'after publication: notify unless needs_notify is false' if ok else
                'a path from publication %s to return skips waiter.notify() although needs_notify may be true' % x.describe(p),
                flavour=fl, where=g.where(p), sub='i%d' % g.nodes[p].inst)
    # P14-part: notify only behind needs_notify
    for n in notifies:
        ok = x.dom(nn_true, n)
        ctx.add('P14n', 'T-GUARD', root, ok, 'notify is called only when the waiter needs notification' if ok else
                'waiter.notify() reachable with needs_notify == false (try_send may block on the waiter lock)', flavour=fl, where=g.where(n), sub='notify')


def _who_may_write(ctx, root):
    """W1 W2 W5: every write to head / wraps / tail_cache anywhere in the crate is one of the
    sites of the send entry point (or queue construction)."""
    F = ctx.F
    for (rule, adt, field, pat) in (('W1', 'MultiQueue', 'head', 'MultiQueue.head/'),
                                    ('W2', 'QueueEntry', 'wraps', 'QueueEntry.wraps'),
                                    ('W5', 'MultiQueue', 'tail_cache', 'MultiQueue.tail_cache')):
        cands = sorted({s_ for c_ in fns_mentioning(F, adt, field) for s_ in ctx.subjects_for(c_)})
        ctx.floor(rule, len(cands), 2, 'functions naming %s.%s' % (adt, field))
        allowed = set()
        for fl in FLAVOURS:
            g = ctx.graph(root, fl)
            for a in g.x.atoms_on(pat, ops=WRITE_OPS):
                allowed.add(site_key(g, a.nid))
        for c in cands:
            if is_dead(F, c):
                continue
            for fl in FLAVOURS:
                g = ctx.graph(c, fl)
                for a in g.x.atoms_on(pat, ops=WRITE_OPS):
                    sk = site_key(g, a.nid)
                    init = constructs(F, c, 'MultiQueue')
                    ok = sk in allowed or init
                    ctx.add(rule, 'T-WHO', c, ok,
                            ('write to %s.%s at a known site (%s)' % (adt, field, 'queue construction' if init and sk not in allowed else 'send entry point')) if ok else
                            '%s writes %s.%s (%s) outside the send entry point' % (short_fn(c), adt, field, g.x.describe(a.nid)),
                            flavour=fl, where=g.where(a.nid), sub='%s.bb%s' % (short_fn(sk[0]), sk[1]))
    # W15 / W11: QueueState::Uni is built only at queue construction or on the guarded edge
    for name, f in F.fns.items():
        for bi, b in enumerate(f['blocks']):
            if b['cleanup']:
                continue
            for s in b['stmts']:
                if s['k'] == 'assign' and s['rv']['k'] == 'agg' and s['rv']['ak'] == 'adt' and \
                        s['rv']['adt'].endswith('QueueState') and s['rv']['variant'] == 'Uni':
                    allowed_ = lambda f_: bool(constructs(F, f_, 'MultiQueue') or f_ == root or F.fns[f_].get('from_expansion'))
                    ok = all(allowed_(o_) for o_ in ctx.terminal_owners(name, allowed_))
                    ctx.add('W11', 'T-WHO', name, ok, 'QueueState::Uni built at queue construction / guarded switch' if ok else
                            'QueueState::Uni constructed in %s' % short_fn(name), where='%s:%d' % (f['file'], s['line']), sub='Uni.bb%d' % bi)


def _clone_send(ctx):
    F = ctx.F
    fn = ctx.fn1(r'^<multiqueue::InnerSend<.*> as std::clone::Clone>::clone$')
    g = ctx.graph(fn)
    x = g.x
    sets = [n for n in x.ext_calls(r'Cell(::<.*>)?::set$') if any('InnerSend.state' in p for p in g.locpaths(g.call_args(n)[0]))]
    multi_sets = {n for n in sets if g.strip(g.call_args(n)[1])[0] == 'agg' and g.strip(g.call_args(n)[1])[2].endswith('QueueState::Multi')}
    ok = bool(multi_sets) and not (x.reachable_entry(blocked=multi_sets) & set(g.exits)) and len(multi_sets) == len(sets)
    ctx.add('P2e', 'T-MUST', fn, ok, 'Clone marks the source handle Multi on every path' if ok else 'Clone for InnerSend does not set self.state = Multi on every path', sub='self')
    aggs = x.aggs(r'multiqueue::InnerSend::InnerSend$')
    ctx.floor('P2e', len(aggs), 1, 'InnerSend{..} construction in Clone')
    for (nid, si, rv) in aggs:
        e = x.agg_expr(nid, si)
        st = g.strip(e[4][e[3].index('state')])
        okv = False
        if st[0] == 'call' and re.search(r'Cell(::<.*>)?::new$', g.call_name(st[1]) or ''):
            a = g.strip(g.call_args(st[1])[0])
            okv = a[0] == 'agg' and a[2].endswith('QueueState::Multi')
        ctx.add('P2e', 'T-FLOW', fn, okv, 'the new handle starts in Multi mode' if okv else 'cloned InnerSend does not start in QueueState::Multi', where=g.where(nid), sub='new')
    incs = {a.nid for a in x.atoms_on('MultiQueue.writers', ops={'fetch_add'})}
    ok = bool(incs) and not (x.reachable_entry(blocked=incs) & set(g.exits))
    ctx.add('P2e', 'T-MUST', fn, ok, 'writers count incremented before the clone is returned' if ok else 'Clone for InnerSend does not increment writers on every path', sub='count')
    for n in incs:
        v = g.strip(g.call_args(n)[1])
        ctx.add('W6', 'T-FLOW', fn, v[0] == 'c' and str(v[1]) == '1', 'writers += 1', where=g.where(n), sub='inc')
    # W6: who writes `writers`
    cands = sorted({s_ for c_ in fns_mentioning(F, 'MultiQueue', 'writers') for s_ in ctx.subjects_for(c_)})
    ctx.floor('W6', len(cands), 3, 'functions naming MultiQueue.writers')
    dropfn = ctx.fn1(r'^<multiqueue::InnerSend<.*> as std::ops::Drop>::drop$')
    for c in cands:
        gg = ctx.graph(c, 'BCast')
        for a in gg.x.atoms_on('MultiQueue.writers', ops=WRITE_OPS):
            sk = site_key(gg, a.nid)
            ok = (sk[0] == fn and a.op == 'fetch_add') or (sk[0] == dropfn and a.op == 'fetch_sub')
            ctx.add('W6', 'T-WHO', c, ok, 'writers changed by Clone(+1)/Drop(-1) of InnerSend' if ok else
                    'writers count modified at %s' % gg.x.describe(a.nid), where=gg.where(a.nid), sub='%s.%s' % (short_fn(sk[0]), a.op))
    # InnerSend constructions: clone + queue construction only; initial writers == 1
    ctors = [name for name in F.fns if constructs(F, name, 'InnerSend')]
    for c in ctors:
        ok = c == fn or constructs(F, c, 'MultiQueue')
        ctx.add('W6', 'T-WHO', c, ok, 'InnerSend built by Clone (after count+1) or at queue construction (count=1)' if ok else
                'InnerSend handle constructed in %s without accounting in writers' % short_fn(c), sub='ctor')
    ctx.floor('W6', len(ctors), 2, 'InnerSend constructors')
