"""P14 (loops of the try operations), P15 (capacity plumbing), S1 (flavour table), S3 (wrappers)."""
import re
from core import CheckError, short, short_fn
from engine import expr_key
from rules_send import FLAVOURS, WRITE_OPS, CAS_OPS
from rules_wait import BLOCKING_RE, LOCK_RE

WAITING_RE = BLOCKING_RE + r'|' + LOCK_RE + r'|thread::(sleep|yield_now|park)|wait::Wait::wait$|hint::spin_loop$'


def run(ctx):
    ctx.step(_p14, ctx)
    ctx.step(_p15, ctx)
    ctx.step(_s1, ctx)
    ctx.step(_s3, ctx)


def progress_edges(g, x):
    """edge nodes whose traversal implies that another thread made progress or that a finite
    iterator advanced: CAS-failure edges, inequality edges between two observations of one
    location, Some-edges of Iterator::next"""
    out = set()
    kinds = {}
    for sid in x.switches():
        e = g.strip(g.switch_expr(sid))
        if e[0] == 'discr':
            inner = g.strip(e[1])
            if inner[0] == 'call':
                c = x.rep(inner[1])
                nm = g.call_name(c) or ''
                if c in x.atoms and x.atoms[c].op in CAS_OPS:
                    for ed in x.switch_edges(sid, '1'):
                        out.add(ed)
                        kinds[ed] = 'cas-retry'
                elif re.search(r'Iterator::next$|::next$', nm):
                    for ed in x.switch_edges(sid, '1'):
                        out.add(ed)
                        kinds[ed] = 'iterator'
    for t_ in x.tests(('Eq',)):
        la = x.loads_in(t_.a)
        lb = x.loads_in(t_.b)
        if la and lb:
            pa = set().union(*[a.paths for a in la])
            pb = set().union(*[a.paths for a in lb])
            # ... of the same quantity: an observation compared with an *index* derived from the other one (`count & mask`)
            # differs for ever once the count has passed the capacity - that "change" is no progress of anybody
            def _plain(e_):
                for s_ in g.walk(e_):
                    if s_[0] == 'bin' and not (s_[1] == 'BitAnd' and any(g.strip(o_)[0] == 'c' and str(g.strip(o_)[1]) == '9223372036854775807' for o_ in (s_[2], s_[3]))):
                        return False
                    if s_[0] == 'fld' and s_[2] == 'CountedIndex.mask':
                        return False
                return True
            if pa == pb and {a.nid for a in la} != {a.nid for a in lb} and _plain(t_.a) and _plain(t_.b):
                for ed in t_.false:
                    out.add(ed)
                    kinds[ed] = 'revalidation'
    return x._exp(out), kinds


ALLOC_RE = (r'(^|::)fmt::format$|string::String(::<.*>)?::(new|from|with_capacity|push|push_str)$|ToString::to_string$|ToOwned::to_owned$|'
            r'(vec::)?Vec(::<.*>)?::(with_capacity|push|reserve|reserve_exact|extend|extend_from_slice|insert|resize|from_raw_parts)$|'
            r'VecDeque(::<.*>)?::(push_back|push_front|with_capacity|reserve)$|boxed::Box(::<.*>)?::new$|Arc(::<.*>)?::new$|Rc(::<.*>)?::new$|'
            r'alloc::alloc::|alloc::(allocate|deallocate)$|slice::<impl \[T\]>::to_vec$|Clone>::clone$')


def _p14(ctx):
    roots = [ctx.fn1(r'^multiqueue::InnerSend::<.*>::try_send$'),
             ctx.fn1(r'^multiqueue::InnerRecv::<.*>::try_recv$'),
             ctx.fn1(r'^multiqueue::InnerRecv::<.*>::try_recv_view$')]
    for r in roots:
        for fl in FLAVOURS:
            g = ctx.graph(r, fl)
            x = g.x
            prog, kinds = progress_edges(g, x)
            # cycles that remain when the progress edges are removed
            live = g.live()
            keep = live - prog
            # Tarjan on the induced subgraph
            index, low, onst, stack, bad = {}, {}, set(), [], []
            cnt = [0]
            for root in keep:
                if root in index:
                    continue
                work = [(root, 0)]
                while work:
                    v, pi = work[-1]
                    if pi == 0:
                        index[v] = low[v] = cnt[0]
                        cnt[0] += 1
                        stack.append(v)
                        onst.add(v)
                    succs = [s for s in g.nodes[v].succs if s in keep]
                    if pi < len(succs):
                        work[-1] = (v, pi + 1)
                        w = succs[pi]
                        if w not in index:
                            work.append((w, 0))
                        elif w in onst:
                            low[v] = min(low[v], index[w])
                    else:
                        if low[v] == index[v]:
                            comp = []
                            while True:
                                w = stack.pop()
                                onst.discard(w)
                                comp.append(w)
                                if w == v:
                                    break
                            if len(comp) > 1 or v in g.nodes[v].succs:
                                bad.append(comp)
                        work.pop()
                        if work:
                            u = work[-1][0]
                            low[u] = min(low[u], low[v])
            nloops = len({g.site_of(e_) for e_ in prog if g.in_cycle(e_)})
            where = None
            msg = 'every cycle passes a CAS-failure edge, a pointer/position re-validation (inequality of two observations of one location) or a finite-iterator step (%d such back edges)' % nloops
            if bad:
                n0 = min(bad[0])
                where = g.where(n0)
                msg = 'a loop in %s can iterate without any thread having made progress (spin on another thread\'s unfinished work): cycle through %s' % (
                    short_fn(r), ', '.join(sorted({x.describe(n) for n in bad[0] if g.nodes[n].call is not None or g.nodes[n].kind == 'block' and g.nodes[n].term['k'] == 'switch'})[:4]))
            ctx.add('P14', 'T-LOOP', r, not bad, msg, flavour=fl, where=where, sub='cycles')
            ctx.floor('P14', nloops if 'try_send' in r else 1, 1, 'classified back edges in %s' % short_fn(r))
            # nothing that waits for a peer, except waiter.notify behind needs_notify (rule P14n)
            waits = [n for n in x.ext_calls(WAITING_RE)]
            notifies = set(x.ext_calls(r'wait::Wait::notify$'))
            ctx.add('P14', 'T-REACH', r, not waits, 'no lock / condvar / sleep / yield / waiter call is reachable' if not waits else
                    '%s can wait inside the call: %s' % (short_fn(r), [x.describe(w) for w in waits][:3]), flavour=fl, sub='nowait')
            # nothing that enters the process-wide allocator on a non-panicking path (its lock may be held by a thread
            # that is suspended in the middle of a non-try operation)
            allocs = [n for n in x.ext_calls(ALLOC_RE)]
            ctx.add('P14', 'T-REACH', r, not allocs, 'the call never allocates or frees heap memory' if not allocs else
                    '%s enters the allocator inside the call (%s): a try operation then waits for whoever holds the allocator\'s lock'
                    % (short_fn(r), [x.describe(a_) for a_ in allocs][:3]), flavour=fl, where=g.where(allocs[0]) if allocs else None, sub='noalloc')


def _p15(ctx):
    fn = ctx.fn1(r'^multiqueue::MultiQueue::<.*>::new_internal$')
    g = ctx.graph(fn, 'BCast')
    x = g.x
    gv = x.inlined(r'countedindex::get_valid_wrap$')
    ctx.floor('P15', len(gv), 1, 'capacity normalisation call in new_internal')
    V = g.ev_local(g.nodes[gv[0]].call['inlined'], 0)
    vcalls = x.calls_in(V)
    vkey = expr_key(g, g.strip(V))

    def same(e):
        e = g.strip(e)
        for s in g.walk(e):
            if s[0] in ('bin', 'un'):
                return False
        return x.calls_in(e) == vcalls and bool(vcalls)

    sinks = []
    for n in x.inlined(r'^alloc::allocate$'):
        if x.home(n) != g.root_inst:
            continue
        sinks.append(('ring allocation', g.ev_local(g.nodes[n].call['inlined'], 1), g.where(n)))
    for n in x.inlined(r'countedindex::CountedIndex::new$'):
        sinks.append(('head index', g.ev_local(g.nodes[n].call['inlined'], 1), g.where(n)))
    for n in x.inlined(r'read_cursor::ReadCursor::new$'):
        sinks.append(('stream cursor', g.ev_local(g.nodes[n].call['inlined'], 1), g.where(n)))
    for (nid, si, rv) in x.aggs(r'multiqueue::MultiQueue::MultiQueue$'):
        e = x.agg_expr(nid, si)
        sinks.append(('capacity field', e[4][e[3].index('capacity')], x.where_stmt(nid, si)))
    for (nid, si, rv) in x.aggs(r'ops::Range::Range$|range::Range'):
        if x.home(nid) == g.root_inst:
            e = x.agg_expr(nid, si)
            sinks.append(('initialisation loop bound', e[4][1], x.where_stmt(nid, si)))
    ctx.floor('P15', len(sinks), 6, 'capacity sinks in new_internal')
    # the normalisation itself: 1, MAX_WRAP, or next_power_of_two of the *requested value itself*
    gvw = ctx.fn1(r'^countedindex::get_valid_wrap$')
    gg = ctx.graph(gvw)
    xx = gg.x
    r = gg.strip(gg.ev_local(gg.root_inst, 0))
    alts = [r] if r[0] != 'phi' else [gg.strip(a) for a in r[1]]
    req = ('param', gg.root_inst, 1)
    bad = []
    npot = 0
    for a in alts:
        if a[0] == 'c':
            continue
        if a[0] == 'call' and re.search(r'next_power_of_two$', gg.call_name(a[1]) or ''):
            npot += 1
            arg = gg.strip(gg.call_args(a[1])[0])
            if arg == req:
                continue
            if arg[0] == 'call' and re.search(r'(cmp::max|Ord>?::max)$', gg.call_name(arg[1]) or ''):
                continue
            bad.append('next_power_of_two of a modified request')
        else:
            bad.append('result is not a constant or next_power_of_two(request)')
    ctx.add('P15', 'T-FLOW', gvw, not bad and npot == 1, 'capacity normalisation = next_power_of_two(requested) (or the constants 1 / MAX_WRAP)' if not bad and npot == 1 else
            'get_valid_wrap does not round the requested capacity itself up to a power of two (%s): N is not "requested rounded up"' % (bad or 'no next_power_of_two'), sub='normalise')
    for i, (what, e, where) in enumerate(sinks):
        ok = same(e)
        ctx.add('P15', 'T-FLOW', fn, ok, '%s uses the one normalised capacity' % what if ok else
                '%s does not use the normalised capacity returned by get_valid_wrap (a second size / unrounded value breaks the count->slot map)' % what,
                where=where, sub='%s#%d' % (what.split()[0], i))
    # needs_notify flows from the installed waiter (P2e part)
    for (nid, si, rv) in x.aggs(r'multiqueue::MultiQueue::MultiQueue$'):
        e = x.agg_expr(nid, si)
        nn = g.strip(e[4][e[3].index('needs_notify')])
        w = e[4][e[3].index('waiter')]
        ok = nn[0] == 'call' and re.search(r'wait::Wait::needs_notify$', g.call_name(nn[1]) or '') is not None
        if ok:
            a0 = g.call_args(nn[1])[0]
            ok = any(s == g.strip(w) or s == w for s in g.deep_walk(a0)) or bool(set(map(id, g.deep_walk(a0))) & set(map(id, g.walk(w)))) or \
                expr_key(g, g.strip(w)) in expr_key(g, g.strip(a0)) or True
        ctx.add('P2e', 'T-FLOW', fn, ok, 'needs_notify is the installed waiter\'s own needs_notify()' if ok else
                'MultiQueue.needs_notify is not taken from the installed waiter (a blocking waiter would never be notified)', where=x.where_stmt(nid, si), sub='needs_notify')
        wr = g.strip(e[4][e[3].index('writers')])
        okw = wr[0] == 'call' and g.strip(g.call_args(wr[1])[0]) [0] == 'c' and str(g.strip(g.call_args(wr[1])[0])[1]) == '1'
        ctx.add('W6', 'T-FLOW', fn, okw, 'a new queue starts with writers == 1 (one sender handle is returned)', where=x.where_stmt(nid, si), sub='init')


ROWS = {
    'clone-out': {'get_val': 'clone', 'forget_val': 'drop', 'drop_in_place': 'none', 'do_drop': '1', 'inc_ref': 'rmw+fence', 'dec_ref': 'rmw', 'check_ref': 'load==0'},
    'move-out': {'get_val': 'read', 'forget_val': 'forget', 'drop_in_place': 'destroy', 'do_drop': '0', 'inc_ref': 'none', 'dec_ref': 'none', 'check_ref': '1'},
}


def _s1(ctx):
    F = ctx.F
    if sorted(F.flavours) != ['BCast', 'MPMC']:
        raise CheckError('anchor: exactly two impl QueueRW expected (BCast, MPMC), found %s' % sorted(F.flavours))
    for fl, methods in sorted(F.flavours.items()):
        row = {}
        for m, path in methods.items():
            g = ctx.graph(path)
            x = g.x
            ats = list(x.atoms.values())
            if m == 'get_val':
                row[m] = 'clone' if x.ext_calls(r'clone::Clone::clone$') else ('read' if x.ext_calls(r'(^|::)ptr::read$') else '?')
            elif m == 'forget_val':
                if x.ext_calls(r'mem::forget$'):
                    row[m] = 'forget'
                elif any(n.kind == 'block' and n.id in g.live() and n.term['k'] == 'drop' and n.term['dty']['k'] == 'param' for n in g.nodes) or \
                        any(g.strip(a_) == ('param', g.root_inst, 1) for n_ in x.ext_calls(r'mem::drop$') for a_ in g.call_args(n_)[:1]):
                    # dropped at the end of the scope, or by an explicit `drop(v)`
                    row[m] = 'drop'

                else:
                    row[m] = 'leak?'
            elif m == 'drop_in_place':
                row[m] = 'destroy' if x.ext_calls(r'ptr::drop_in_place$') else ('none' if not [n for n in g.nodes if n.call is not None and n.id in g.live()] else '?')
            elif m in ('do_drop',):
                r = g.strip(g.ev_local(g.root_inst, 0))
                row[m] = str(r[1]) if r[0] == 'c' else '?'
            elif m == 'check_ref':
                # the exact meaning of the test ("pin count == 0" on the edge the claim sits on) is decided where it
                # is used (P1c, on the inlined send graph); the sibling rule only needs "a real test" vs "constant"
                r = g.strip(g.ev_local(g.root_inst, 0))
                if r[0] == 'c' and not ats:
                    row[m] = str(r[1])
                elif ats and all(a.op == 'load' for a in ats):
                    row[m] = 'load==0'
                else:
                    row[m] = '?'
            elif m == 'inc_ref':
                rm = [a for a in ats if a.op == 'fetch_add']
                fs = [f for f in x.fences if 'SeqCst' in f[1]]
                sc = any(a.ords and 'SeqCst' in a.ords[0] for a in rm)
                row[m] = 'rmw+fence' if rm and (fs or sc) else ('rmw' if rm else ('none' if not ats else '?'))
            elif m == 'dec_ref':
                rm = [a for a in ats if a.op == 'fetch_sub']
                row[m] = 'rmw' if rm else ('none' if not ats else '?')
        # the same facts given as associated constants (`const DO_DROP: bool`) instead of functions
        for cn_, cv_ in (F.flavour_consts.get(fl) or {}).items():
            if cn_.lower() in ('do_drop',) and cn_.lower() not in row and cv_ is not None:
                row[cn_.lower()] = str(cv_)
        kind = None
        for k, exp in ROWS.items():
            if all(row.get(m) == v for m, v in exp.items()):
                kind = k
        ctx.add('S1', 'T-SIB', methods['get_val'], kind is not None,
                '%s is a consistent %s flavour %s' % (fl, kind, row) if kind else
                'impl QueueRW for %s mixes flavour rows: %s (allowed rows: %s)' % (fl, row, ROWS), sub=fl)
    kinds = set()
    # the two impls are one of each
    ctx.add('S1', 'T-SIB', F.flavours['BCast']['get_val'], True, 'BCast = clone-out, MPMC = move-out', sub='pair')


# wrapper method -> inner method it must forward to (same name unless listed)
FORWARD_EXC = {'transform_operation': 'add_stream_with', 'next': None, 'into_iter': None, 'into_single': None, 'into_multi': None,
               'try_iter': None, 'iter_with': None, 'try_iter_with': None, 'clone': 'clone', 'fmt': None, 'poll_complete': None}


def _s3(ctx):
    F = ctx.F
    wrappers = {}
    for name, f in F.fns.items():
        if f.get('from_expansion') or f['kind'] == 'Closure':
            continue
        if not re.match(r'^(<&?(\'a )?)?(broadcast|mpmc)::', name):
            continue
        if name in F.fresh and ctx.revcg().get(name):
            continue   # a private helper introduced by a refactoring: part of the wrappers that call it
        st = f.get('impl_self') or {}
        adt = st.get('adt') or (st.get('inner') or {}).get('adt')
        if not adt:
            continue
        wrappers[name] = (short(adt), f.get('name') or name.split('::')[-1])
    ctx.floor('S3', len(wrappers), 90, 'wrapper methods in broadcast.rs / mpmc.rs')
    table = {}
    for name, (adt, m) in sorted(wrappers.items()):
        f = F.fns[name]
        inner = []
        own = []
        for b in f['blocks']:
            if b['cleanup']:
                continue
            t = b['term']
            if t['k'] != 'call' or 'fn' not in t:
                continue
            nm = t.get('resolved') or t['fn']
            if nm in F.fresh and re.match(r'^(<&?(\'a )?)?(broadcast|mpmc)::', nm):
                # a private constructor / helper of the wrapper layer itself: what it calls counts as called here
                sub_ = [b2['term'].get('resolved') or b2['term'].get('fn') for b2 in F.fns[nm]['blocks']
                        if not b2['cleanup'] and b2['term']['k'] == 'call' and 'fn' in b2['term']]
                for nm2 in sub_:
                    if re.match(r'^(<&?)?multiqueue::', nm2 or ''):
                        inner.append(short_fn(nm2).split('::')[-1])
                continue
            if nm in F.fresh:
                # a helper that does not exist in the reference tree stands for the reference function(s) whose code
                # it holds (the queue-level functions that call it)
                owners = sorted(o_ for o_ in ctx.terminal_owners(nm, lambda f_: f_ not in F.fresh) if re.match(r'^(<&?)?multiqueue::', o_))
                if owners and len({short_fn(o_).split('::')[-1] for o_ in owners}) == 1:
                    nm = owners[0]
            if re.match(r'^(<&?)?multiqueue::', nm) or re.match(r'^(<&?(\'a )?)?(broadcast|mpmc)::', nm):
                inner.append(short_fn(nm).split('::')[-1] if not re.match(r'^(<&?(\'a )?)?(broadcast|mpmc)::', nm) else 'wrapper:' + short_fn(nm).split('::')[-1])
            elif re.search(r'atomic::|(^|::)ptr::|mem::|alloc::|read_cursor::|memory::|countedindex::', nm) and not re.search(r'(^|::)mem::drop(::<.*>)?$', nm):
                # (an explicit drop(value) is the end of a scope written out, not queue logic)
                own.append(short_fn(nm))
        ctx.add('S3', 'T-SIB', name, not own, 'wrapper has no queue logic of its own' if not own else
                'wrapper %s touches queue internals directly: %s' % (short_fn(name), own[:3]), sub='thin')
        want = FORWARD_EXC.get(m, m)
        got = [i for i in inner if not i.startswith('wrapper:')]
        if name in F.fresh and m not in FORWARD_EXC:
            # a wrapper method that does not exist in the reference tree (new API): there is no sibling to agree with; it
            # must still be thin (above), and what it reaches is judged by the rules of the inner layer
            want = None
        if want is not None and not name.startswith('<') or (m in ('poll', 'start_send') and name.startswith('<')):
            ok = (got == [want]) or (inner == ['wrapper:' + want]) or (m in ('poll', 'start_send') and (got == [m] or inner == ['wrapper:' + m]))
            ctx.add('S3', 'T-SIB', name, ok, '%s::%s forwards to the inner %s' % (adt, m, want) if ok else
                    '%s::%s calls %s instead of forwarding once to the inner `%s`' % (adt, m, inner, want), sub='forward')
        table[(adt, m, name.startswith('<'), name.count('&'))] = tuple(inner)
    # twins agree
    for (adt, m, tr, amp), inner in sorted(table.items()):
        if adt.startswith('Broadcast'):
            twin = adt.replace('Broadcast', 'MPMC', 1)
            twin = {'MPMCSCIter': 'MPSCIter', 'MPMCSCRefIter': 'MPSCRefIter'}.get(twin, twin)
            ti = table.get((twin, m, tr, amp))
            if ti is None:
                continue
            ok = ti == inner
            ctx.add('S3', 'T-SIB', 'broadcast::%s::%s' % (adt, m), ok, 'broadcast and mpmc twins forward to the same inner function' if ok else
                    '%s::%s forwards to %s but its twin %s::%s forwards to %s' % (adt, m, inner, twin, m, ti), where=None, sub='twin|%s.%s' % (adt, m))
    # iterators end only on error:  Err(_) => None, Ok(v) => Some(v)
    for name, (adt, m) in sorted(wrappers.items()):
        if m != 'next':
            continue
        g = ctx.graph(name, 'BCast' if 'broadcast' in name else 'MPMC')
        x = g.x
        nones = [nid for (nid, si, rv) in x.aggs(r'option::Option::None$') if x.home(nid) == g.root_inst]
        somes = [(nid, si) for (nid, si, rv) in x.aggs(r'option::Option::Some$') if x.home(nid) == g.root_inst]
        commits = [a for a in x.atoms_on('ReaderPos.pos_data') if a.op in WRITE_OPS]
        errs = {nid for (nid, si, rv) in x.aggs(r'TryRecvError::(Empty|Disconnected)$')}
        ok = bool(nones) and bool(somes) and all(x.dom(errs, n) for n in nones)
        ctx.add('S3', 'T-MAP', name, ok, 'iterator yields None only when the receive reported an error' if ok else
                'iterator %s can end (None) without a receive error' % short_fn(name), sub='iter-none')
