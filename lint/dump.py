"""debug: python3 lint/dump.py FACTS ROOT_REGEX [FLAVOUR]  -- print the expanded event graph"""
import sys
from core import *

def fmt(g, e, d=0):
    if d > 6: return '..'
    k = e[0]
    if k == 'call':
        return 'call#%d:%s(%s)' % (e[1], short_fn(g.call_name(e[1])), ', '.join(fmt(g, a, d+2) for a in g.call_args(e[1])) if d < 3 else '..')
    if k in ('ref',): return '&' + fmt(g, e[1], d+1)
    if k == 'deref': return '*' + fmt(g, e[1], d+1)
    if k == 'fld': return fmt(g, e[1], d+1) + '.' + e[2]
    if k == 'param': return 'param%d.%d' % (e[1], e[2])
    if k == 'c': return 'c(%s%s)' % (e[1], '/' + e[2] if e[2] else '')
    if k == 'bin': return '%s(%s, %s)' % (e[1], fmt(g, e[2], d+1), fmt(g, e[3], d+1))
    if k == 'un': return '%s(%s)' % (e[1], fmt(g, e[2], d+1))
    if k == 'cast': return 'cast(%s)' % fmt(g, e[2], d+1)
    if k == 'phi': return 'phi[' + ' | '.join(fmt(g, x, d+1) for x in e[1]) + ']'
    if k == 'agg': return 'agg %s{%s}' % (short_fn(e[2]), ', '.join(fmt(g, x, d+1) for x in e[4]))
    if k == 'discr': return 'discr(%s)' % fmt(g, e[1], d+1)
    if k == 'dc': return '(%s as %s)' % (fmt(g, e[1], d+1), e[2])
    return str(e)[:60]

if __name__ == '__main__':
    F = Facts(sys.argv[1])
    root = F.one_fn(sys.argv[2])
    fl = sys.argv[3] if len(sys.argv) > 3 else None
    g = Graph(F, root, fl)
    print('root', root, 'nodes', len(g.nodes), 'insts', len(g.insts), 'live', len(g.live()))
    print('not inlined:', [(n, short_fn(c), r) for n, c, r in g.not_inlined])
    ats = {a.nid: a for a in atomic_events(g)}
    for n in g.nodes:
        if n.id not in g.live(): continue
        s = ''
        if n.kind == 'edge':
            sw, v, other = n.edge
            s = 'EDGE of N%d val=%s %s' % (sw, v, '' if v is not None else 'not in %s' % (other,))
        elif n.term['k'] == 'switch':
            s = 'SWITCH ' + fmt(g, g.switch_expr(n.id))
        elif n.call:
            if n.call['inlined'] is not None:
                s = 'INLINE %s [%s]' % (short_fn(n.call['name']), n.call['how'])
            elif n.id in ats:
                a = ats[n.id]; s = 'ATOMIC %s %s %s' % (a.op, sorted(a.paths), a.ords)
            else:
                s = 'CALL %s(%s) how=%s rk=%s' % (short_fn(g.call_name(n.id)), ', '.join(fmt(g, a, 2) for a in g.call_args(n.id)), n.call['how'], n.call['rk'])
        else:
            s = n.term['k']
            if n.term['k'] == 'drop': s += ' ' + n.term['dty']['s']
        aggs = [st['rv'] for st in n.stmts if st['k'] == 'assign' and st['rv']['k'] == 'agg' and st['rv']['ak'] == 'adt' and 'Ordering' not in st['rv']['adt']]
        if aggs: s += '   AGG ' + ','.join(short_fn(a['adt']) + '::' + a['variant'] for a in aggs)
        print('N%-4d i%-3d %-28s L%-4d -> %-14s %s' % (n.id, n.inst, short_fn(n.fn)[-28:], n.line, n.succs, s))
