"""Additional structural rules added after the first round of seeded changes:
P12e/f/g (epoch announcement plumbing), P11g (consumer/producer task lists never swapped),
P10g (the stream scan folds with max), W10c (signal bit constants), S3i (iterator kinds)."""
import re
from core import CheckError, short, short_fn
from engine import has_release, norm_rel, is_const
from rules_send import FLAVOURS, WRITE_OPS, CAS_OPS


def run(ctx):
    ctx.step(_p12e, ctx)
    ctx.step(_p12f, ctx)
    ctx.step(_p12g, ctx)
    ctx.step(_p12h, ctx)
    ctx.step(_p12i, ctx)
    ctx.step(_p1h, ctx)
    ctx.step(_tagconst, ctx)
    ctx.step(_p9g, ctx)
    ctx.step(_p15m, ctx)
    ctx.step(_p11g, ctx)
    ctx.step(_p10g, ctx)
    ctx.step(_w10c, ctx)
    ctx.step(_s3i, ctx)


def _const_of(g, e, _d=0):
    """the value of an expression that is a compile-time constant: a literal, `!literal` (as 'not:<v>'), or simple
    arithmetic on literals (`1 << POS`, `A | B`: a mask built by a const fn folds to its value)"""
    e = g.strip(e)
    if e[0] == 'c':
        return str(e[1]) if e[1] is not None else None
    if e[0] == 'un' and e[1] == 'Not':
        c = _const_of(g, e[2], _d + 1)
        if c is not None:
            return 'not:' + c
    if e[0] == 'fld' and e[2] == '0' and g.strip(e[1])[0] == 'bin' and g.strip(e[1])[1].endswith('WithOverflow'):
        b = g.strip(e[1])
        e = ('bin', b[1].replace('WithOverflow', ''), b[2], b[3])
    if e[0] == 'cast' and _d < 6:
        return _const_of(g, e[2], _d + 1)
    if e[0] == 'bin' and _d < 6:
        a, b = _const_of(g, e[2], _d + 1), _const_of(g, e[3], _d + 1)
        try:
            if a is not None and b is not None and not a.startswith('not:') and not b.startswith('not:'):
                a, b = int(a), int(b)
                op = e[1].replace('Unchecked', '')
                M = (1 << 64) - 1
                r = {'Shl': lambda: (a << b) & M if 0 <= b < 64 else None, 'Shr': lambda: a >> b if 0 <= b < 64 else None,
                     'BitOr': lambda: a | b, 'BitAnd': lambda: a & b, 'BitXor': lambda: a ^ b,
                     'Add': lambda: (a + b) & M, 'Sub': lambda: (a - b) & M, 'Mul': lambda: (a * b) & M}.get(op)
                if r is not None:
                    v = r()
                    return None if v is None else str(v)
        except ValueError:
            return None
    return None


def signal_bits(ctx):
    bits = {}
    for m in ('set_epoch', 'clear_epoch', 'set_reader', 'clear_reader'):
        fn = ctx.fn1(r'^atomicsignal::AtomicSignal::%s$' % m)
        g = ctx.graph(fn)
        ats = [a for a in g.x.atoms_on('AtomicSignal.flags') if a.op in WRITE_OPS]
        if len(ats) != 1:
            raise CheckError('anchor: AtomicSignal::%s must contain exactly one RMW on flags' % m)
        bits[m] = (ats[0].op, _const_of(g, g.call_args(ats[0].nid)[1]), fn, g.where(ats[0].nid))
    for m in ('get_epoch', 'get_reader'):
        fn = ctx.fn1(r'^atomicsignal::LoadedSignal::%s$' % m)
        g = ctx.graph(fn)
        c = _bit_test_const(g, g.ev_local(g.root_inst, 0))
        bits[m] = ('test', c, fn, ctx.F.where(fn))
    return bits


def _bit_test_const(g, e):
    """mask m when the boolean function with graph g (return expression e) computes `(x & m) != 0`, in any form: as a
    value (`(x & m) != 0`, `!((x & m) == 0)`, `0 != x & m`) or as control flow (`match x & m { 0 => false, _ => true }`,
    `if x & m == 0 { false } else { true }`); None otherwise"""
    nr_ = norm_rel(g, e)
    if nr_ and nr_[0] == 'Eq' and not nr_[3]:
        for l, z in ((nr_[1], nr_[2]), (nr_[2], nr_[1])):
            if _const_of(g, z) == '0' and l[0] == 'bin' and l[1] == 'BitAnd':
                return _const_of(g, l[3]) or _const_of(g, l[2])
        return None
    # control-flow form: one zero-test of `x & m`; constants returned on its two sides
    x = g.x
    masks = []

    def _band(e_):
        if e_[0] == 'bin' and e_[1] == 'BitAnd':
            m_ = _const_of(g, e_[3]) or _const_of(g, e_[2])
            if m_ is not None:
                masks.append(m_)
                return True
        return False
    z, nz, hit = x.zero_tests(_band)
    if len({h[0] for h in hit}) != 1 or len(set(masks)) != 1:
        return None
    # every return on the zero side yields false, on the non-zero side true
    vals = {0: set(), 1: set()}
    for d_ in g.defs.get((g.root_inst, 0)) or ():
        st = g._def_site(d_)
        if d_[0] != 'rv' or st is None:
            return None
        if not any(m_ in g.live() for m_ in g.members(st[0])):
            continue
        v = g.strip(g._ev_def(d_))
        if v[0] != 'c':
            return None
        on_z, on_nz = x.dom(z, st[0]), x.dom(nz, st[0])
        if on_z == on_nz:
            return None
        vals[0 if on_z else 1].add(str(v[1]))
    if vals[0] == {'0'} and vals[1] == {'1'}:
        return masks[0]
    return None


def _w10c(ctx):
    b = signal_bits(ctx)
    fn = b['set_reader'][2]
    ep, rd = b['set_epoch'][1], b['set_reader'][1]
    ok = ep is not None and rd is not None and ep.isdigit() and rd.isdigit() and int(ep) & int(rd) == 0 and int(ep) != 0 and int(rd) != 0
    ctx.add('W10', 'T-FLOW', fn, ok, 'epoch bit (%s) and no-reader bit (%s) are distinct non-zero bits' % (ep, rd) if ok else
            'signal bits overlap or are zero: epoch=%s no-reader=%s' % (ep, rd), sub='bits-disjoint')
    oks = b['set_epoch'][0] == 'fetch_or' and b['set_reader'][0] == 'fetch_or'
    ctx.add('W10', 'T-FLOW', b['set_epoch'][2], oks, 'set_epoch / set_reader only OR their own bit into the signal word' if oks else
            'a signal setter does not use fetch_or (set_epoch: %s, set_reader: %s): it overwrites the neighbouring bit of the word (e.g. starting a reclamation cycle wipes the sticky no-reader bit, and sends succeed again with no receiver left)'
            % (b['set_epoch'][0], b['set_reader'][0]), where=b['set_epoch'][3], sub='setters-or')
    ok2 = b['clear_epoch'][0] == 'fetch_and' and \
        b['clear_epoch'][1] in ('not:' + str(ep), str((~int(ep)) & (2 ** 64 - 1)) if ep and ep.isdigit() else None)
    ctx.add('W10', 'T-FLOW', b['clear_epoch'][2], ok2, 'clear_epoch masks exactly the epoch bit (the no-reader bit survives a completed reclamation cycle)' if ok2 else
            'clear_epoch does not clear exactly the epoch bit (mask %s): it can wipe the no-reader bit' % b['clear_epoch'][1], where=b['clear_epoch'][3], sub='clear-epoch-mask')
    ok3 = b['get_epoch'][1] == ep and b['get_reader'][1] == rd
    ctx.add('W10', 'T-FLOW', b['get_reader'][2], ok3, 'get_epoch / get_reader test the bits that set_epoch / set_reader set' if ok3 else
            'signal accessors disagree: set_epoch=%s get_epoch=%s set_reader=%s get_reader=%s' % (ep, b['get_epoch'][1], rd, b['get_reader'][1]), sub='accessors')


def _p12e(ctx):
    fn = ctx.fn1(r'^memory::MemoryManager::update_token$')
    g = ctx.graph(fn)
    x = g.x
    stores = [a for a in x.atoms_on('MemToken.epoch') if a.op in WRITE_OPS]
    ctx.floor('P12e', len(stores), 1, 'token epoch store in update_token')
    glob = {a.nid for a in x.atoms_on('MemoryManager.epoch', ops={'load'})}
    for a in stores:
        v = g.call_args(a.nid)[1]
        src = {s.nid for s in x.loads_in(v)}
        arith = [s for s in g.walk(v) if s[0] in ('bin', 'un')]
        ok = bool(src) and src <= glob and not arith and a.ords and has_release(a.ords[0])
        ctx.add('P12e', 'T-FLOW', fn, ok, 'a handle announces exactly the current global epoch (Release)' if ok else
                'update_token does not store the current global epoch with Release (sources %s, arithmetic %s, ordering %s)' % (sorted(src), bool(arith), a.ords), where=g.where(a.nid), sub='value')
    # the store happens whenever the token lags
    eq_edges = set()
    for t_ in x.tests(('Eq',)):
        ls = x.loads_in(t_.a) + x.loads_in(t_.b)
        if any(l.on('MemToken.epoch') for l in ls) and any(l.on('MemoryManager.epoch') for l in ls):
            eq_edges.update(t_.true)
    ok = not (x.reachable_entry(blocked={a.nid for a in stores} | eq_edges) & set(g.exits))
    ctx.add('P12e', 'T-MUST', fn, ok, 'the announcement is skipped only when the token already holds the current epoch' if ok else
            'update_token can return without announcing although the token lags behind the global epoch (reclamation would stall)', sub='always')


def _p12f(ctx):
    b = signal_bits(ctx)
    fn = ctx.fn_or_host(r'^memory::MemoryManager::start_free$', 'MemoryManager.epoch', WRITE_OPS, r'^memory::MemoryManager::')
    g = ctx.graph(fn)
    x = g.x
    installs = []
    for n in g.nodes:
        if n.id in g.live() and n.kind == 'block':
            for s in n.stmts:
                if s['k'] == 'assign' and s['pl']['p'] and isinstance(s['pl']['p'][-1], dict) and s['pl']['p'][-1].get('f') == 'tofree':
                    installs.append(x.rep(n.id))
    # (a batch can also be handed over by moving the elements: `tofree.append(backlog)` / `extend(backlog.drain(..))`)
    installs += [x.rep(n_) for n_ in x.ext_calls(r'Vec(::<.*>)?::(append|extend|push|insert|extend_from_slice)$|iter::Extend::extend$')
                 if any(p_.endswith('MemoryManagerInner.tofree') for p_ in g.locpaths(g.call_args(n_)[0]))]
    bumps = [a for a in x.atoms_on('MemoryManager.epoch') if a.op in WRITE_OPS]
    sigs = [a for a in x.atoms_on('AtomicSignal.flags') if a.op == 'fetch_or' and _const_of(g, g.call_args(a.nid)[1]) == b['set_epoch'][1]]
    for i in sorted(set(installs)):
        ok1 = bool(bumps) and x.must(i, {a.nid for a in bumps})
        ok2 = bool(sigs) and x.must(i, {a.nid for a in sigs})
        okv = all(any(s[0] == 'call' and re.search(r'wrapping_add$', g.call_name(s[1]) or '') and _const_of(g, g.call_args(s[1])[1]) == '1'
                      for s in g.walk(g.call_args(a.nid)[1])) and a.ords and has_release(a.ords[0]) for a in bumps)
        order = all(not x.reaches(s_.nid, b_.nid) for s_ in sigs for b_ in bumps)
        ctx.add('P12f', 'T-MUST', fn, ok1 and ok2 and okv and order,
                'starting a reclamation cycle bumps the global epoch by one (Release) and then raises the epoch signal' if ok1 and ok2 and okv and order else
                'start_free: epoch bumped on every path=%s, by exactly one with Release=%s, epoch signal raised=%s, after the bump=%s (handles would never announce: nothing is ever reclaimed)' % (ok1, okv, ok2, order),
                where=g.where(i), sub='cycle-start')
    fr = ctx.fn1(r'^memory::MemoryManager::free$')
    g = ctx.graph(fr)
    x = g.x
    # what the decision to start a cycle may depend on: the size of the backlog, getting the manager lock, and the previous
    # cycle being complete (completed epoch == current epoch).  Any other condition in front of the epoch bump (the signal
    # word, say: its no-reader bit stays set for good once the last receiver is gone) can switch reclamation off for ever
    bumps2 = [a for a in x.atoms_on('MemoryManager.epoch') if a.op in WRITE_OPS]
    foreign = []
    for b_ in bumps2:
        for sid in x.switches():
            edges_ = [e_ for e_ in g.nodes[sid].succs if g.nodes[e_].kind == 'edge']
            dom_ = [e_ for e_ in edges_ if x.dom({e_}, b_.nid)]
            if not dom_ or len(dom_) == len(edges_):
                continue
            e = g.switch_expr(sid)
            lds = x.loads_in(e)
            calls_ = [g.call_name(c_) or '' for c_ in x.calls_in(e)]
            ok_guard = any(re.search(r'Vec(::<.*>)?::len$|try_lock$|::lock$|Result(::<.*>)?::(is_ok|is_err|map|ok)$|Option(::<.*>)?::(is_some|is_none)$', c_) for c_ in calls_) or \
                any(l_.on('MemoryManager.epoch') for l_ in lds) or any(s_[0] == 'fld' and s_[2] == 'MemoryManagerInner.epoch' for s_ in g.deep_walk(e)) or \
                not lds and not any(s_[0] == 'fld' for s_ in g.deep_walk(e))
            if not ok_guard:
                foreign.append((sid, sorted({p_ for l_ in lds for p_ in l_.paths})[:2]))
    if bumps2:
        ctx.add('P12f', 'T-GUARD', fr, not foreign, 'a new cycle is started depending only on the backlog size, the manager lock and the completion of the previous cycle' if not foreign else
                'starting a reclamation cycle is made to depend on %s (test at %s): a condition that can stay false for good (e.g. the signal word, whose no-reader bit is never cleared) stops reclamation for ever - retired memory grows without bound'
                % (foreign[0][1], g.where(foreign[0][0])), where=g.where(foreign[0][0]) if foreign else None, sub='start-guards')
    # the backlog threshold is a one-sided bound (`len > 20`): start_free may decline (lock busy, previous cycle still
    # pending) and is then tried again by the next free().  An equality is met once; after one refusal the backlog is past
    # it for good and no cycle is ever started again
    eqlen = []
    for t_ in x.tests(('Eq',)):
        if not any(re.search(r'Vec(::<.*>)?::len$', g.call_name(c_) or '') for side in (t_.a, t_.b) for c_ in x.calls_in(side)):
            continue
        edges_ = [e_ for e_ in g.nodes[t_.sid].succs if g.nodes[e_].kind == 'edge']
        for b_ in bumps2:
            dom_ = [e_ for e_ in edges_ if x.dom({e_}, b_.nid)]
            if dom_ and len(dom_) < len(edges_):
                eqlen.append(t_.sid)
    if bumps2:
        ctx.add('P12f', 'T-GUARD', fr, not eqlen, 'the backlog threshold that starts a cycle is a one-sided bound' if not eqlen else
                'a reclamation cycle is only started when the backlog size *equals* a threshold (test at %s): start_free may decline (manager lock busy, previous cycle pending); the next free() finds the backlog past the threshold and never tries again - retired memory grows without bound'
                % g.where(eqlen[0]), where=g.where(eqlen[0]) if eqlen else None, sub='start-threshold')
    clears = [a for a in x.atoms_on('AtomicSignal.flags') if a.op == 'fetch_and']
    tf = x.inlined(r'MemoryManagerInner::try_freeing$')
    true_edges = set()
    for sid in x.switches():
        e = g.strip(g.switch_expr(sid))
        # result of try_freeing (inlined): phi of constants / after threading the true origins reach the clear directly
    ok = bool(tf) and bool(clears) and all(x.dom(set(tf), c.nid) for c in clears)
    dels = sorted({n_ for (n_, _i) in g.inlined_insts(r'memory::ToFree::delete$')})
    ok2 = bool(dels) and all(x.dom(set(dels) | {n for n in x.ext_calls(r'Vec(::<.*>)?::drain$')}, c.nid) for c in clears)
    ctx.add('P12f', 'T-DOM', fr, ok and ok2, 'the epoch signal is cleared only after a reclamation cycle completed (objects deleted)' if ok and ok2 else
            'MemoryManager::free clears the epoch signal without a completed cycle', sub='cycle-end')
    # every call of free() attempts to complete the cycle in flight (not only while the backlog is small)
    attempts = [n for n in x.ext_calls(r'Mutex(::<.*>)?::try_lock$')
                if any(p_.endswith('MemoryManager.mem_manager') for p_ in g.locpaths(g.call_args(n)[0])) and not x.within(n, r'memory::MemoryManager::start_free$')]
    okA = bool(attempts) and bool(tf) and not (x.reachable_entry(blocked=set(attempts)) & set(g.exits)) and \
        not (x.reachable_entry(blocked=set(tf) | {e_ for n in attempts for e_ in ()}) & set())
    # the epoch the tokens are compared with is read under the manager lock (after any bump this call could make)
    for t_ in tf:
        at_ = g.ev_local(g.nodes[t_].call['inlined'], 2)
        lds = [l for l in x.loads_in(at_) if l.on('MemoryManager.epoch')]
        okE = bool(lds) and all(x.dom(set(attempts), l.nid) for l in lds) and not [s_ for s_ in g.walk(at_) if s_[0] in ('bin', 'un')]
        ctx.add('P12f', 'T-FLOW', fr, okE, 'try_freeing compares the tokens with the global epoch read under the manager lock' if okE else
                'the epoch handed to try_freeing is not the global epoch read under the manager lock (read before the lock / before a bump, or modified): every token trivially "has announced" a stale epoch and the batch is freed without a grace period (use-after-free of bookkeeping memory)',
                sub='epoch-under-lock')
    # the completion attempt must come before a new cycle may be started in the same call
    sf = x.inlined(r'memory::MemoryManager::start_free$')
    okB = all(x.dom(set(attempts), s_) for s_ in sf) if sf else True
    ctx.add('P12f', 'T-MUST', fr, okA and okB, 'every free() first tries to complete the reclamation cycle in flight, whatever the backlog' if okA and okB else
            'MemoryManager::free does not attempt to complete the pending reclamation cycle on every call (attempt on every path=%s, before a new cycle is started=%s): once the backlog stays above the threshold while a cycle is pending, nothing is ever reclaimed again'
            % (okA, okB), sub='always-try-complete')


def _p12g(ctx):
    b = signal_bits(ctx)
    F = ctx.F
    roots = [k for k in F.fns if re.search(r'^multiqueue::(InnerSend|InnerRecv)::<.*>::(try_send|try_recv|recv|try_recv_view|recv_view)$', k)]
    roots += [k for k in F.fns if re.search(r'^<&?multiqueue::FutInner(Uni)?Recv<.*> as .*Stream>::poll$', k)]
    ctx.floor('P12g', len(roots), 7, 'operation roots that must announce epochs')
    for r in sorted(roots):
        g = ctx.graph(r, 'MPMC')
        x = g.x
        sig = {a.nid for a in x.atoms_on('AtomicSignal.flags', ops={'load'})}
        def _ep_bit(e_):
            if e_[0] != 'bin' or e_[1] != 'BitAnd':
                return False
            for m, k in ((g.strip(e_[2]), _const_of(g, e_[3])), (g.strip(e_[3]), _const_of(g, e_[2]))):
                if k == b['set_epoch'][1] and m[0] == 'call' and x.rep(m[1]) in sig:
                    return True
            return False
        _z, ep_edges, _h = x.zero_tests(_ep_bit)
        anns = []
        for n in x.inlined(r'memory::MemoryManager::update_token$'):
            tok = g.ev_local(g.nodes[n].call['inlined'], 2)
            if any(s[0] == 'fld' and s[2].endswith('.token') for s in g.deep_walk(tok)):
                anns.append(n)
        ok = bool(ep_edges) and bool(anns) and all(x.must(e_, set(anns)) for e_ in ep_edges)
        # the announcement comes before the operation touches the queue (slot tags / stream lists / head)
        first = {a.nid for a in x.atoms.values() if a.on('QueueEntry.wraps', 'ReadCursor.readers', 'MultiQueue.head/', 'ReaderPos.pos_data')}
        early = all(not any(x.reaches(f_, n) for f_ in first) for n in anns) or 'recv' in r and 'try_recv' not in r or 'poll' in r
        ctx.add('P12g', 'T-MUST', r, ok, 'when the epoch bit is seen the handle announces the epoch with its own token' if ok else
                '%s does not announce the epoch (update_token with its own token) on every path where it saw the epoch bit: its stale token blocks every reclamation cycle' % short_fn(r),
                sub='announce')


def _p12h(ctx):
    """MemoryManager::free must not be entered with the manager lock held: its try_lock of that very
    mutex would always fail, so neither try_freeing nor start_free could ever run from that call"""
    F = ctx.F
    n = 0
    for name in sorted(F.fns):
        f = F.fns[name]
        if f['kind'] == 'Closure':
            continue
        calls_free = any(b['term']['k'] == 'call' and re.search(r'memory::MemoryManager::free$', b['term'].get('fn') or '') for b in f['blocks'])
        if not calls_free:
            continue
        g = ctx.graph(name, 'MPMC')
        x = g.x
        frees = [c for c in x.inlined(r'memory::MemoryManager::free$') if x.home(c) == g.root_inst]
        locks = [l for l in x.ext_calls(r'Mutex(::<.*>)?::lock$') if any(p_.endswith('MemoryManager.mem_manager') for p_ in g.locpaths(g.call_args(l)[0]))]
        for c in frees:
            n += 1
            held = []
            for l in locks:
                drops = set()
                for nd in g.nodes:
                    if nd.id in g.live() and nd.kind == 'block' and nd.term['k'] == 'drop' and 'Guard' in nd.term['dty']['s'] and \
                            l in x.calls_in(g.ev_place(nd.inst, nd.term['pl'], at=(nd.id, None)), deep=True):
                        drops.add(nd.id)
                for nd in x.ext_calls(r'mem::drop$'):
                    if l in x.calls_in(g.call_args(nd)[0], deep=True):
                        drops.add(nd)
                if x.reaches(l, c, blocked=drops):
                    held.append(x.describe(l))
            ctx.add('P12h', 'T-ORD', name, not held, 'MemoryManager::free is called without the manager lock held' if not held else
                    '%s calls MemoryManager::free while still holding the manager lock (%s): inside free both try_lock attempts on that mutex fail, so a reclamation cycle can neither complete nor start from this call; '
                    'with pure handle clone/drop churn nothing else calls free, and the retired tokens pile up without bound' % (short_fn(name), held[0]),
                    where=g.where(c), sub='free-under-lock.bb%d' % g.nodes[c].bb)
    ctx.floor('P12h', n, 4, 'call sites of MemoryManager::free')


def _memstores(g, field):
    """(node, value expr) of assignments through a pointer to a field named `field`"""
    out = []
    for n in g.nodes:
        if n.id in g.live() and n.kind == 'block':
            for si, s_ in enumerate(n.stmts):
                if s_['k'] == 'assign' and s_['pl']['p'] and isinstance(s_['pl']['p'][-1], dict) and s_['pl']['p'][-1].get('f') == field:
                    out.append((n.id, g.ev_rv(n.inst, s_['rv'], n.id, si)))
    return out


def _p12i(ctx):
    """a completed cycle records its epoch (otherwise `completed == current` is never true again and no further cycle starts)"""
    fn = ctx.fn1(r'^memory::MemoryManagerInner::try_freeing$')
    g = ctx.graph(fn)
    x = g.x
    dels = sorted({n_ for (n_, _i) in g.inlined_insts(r'memory::ToFree::delete$')})
    drains = x.ext_calls(r'Vec(::<.*>)?::drain$')
    st = [(n, v) for (n, v) in _memstores(g, 'epoch')]
    at = ('param', g.root_inst, 2)
    good = [n for (n, v) in st if g.strip(v) == at]
    ok = bool(good) and all(x.must(d, set(good)) for d in drains) and all(x.dom(set(drains), n) for n in good)
    ctx.add('P12i', 'T-MUST', fn, ok, 'a completed reclamation cycle records the epoch it completed' if ok else
            'try_freeing does not record the completed epoch after deleting the batch: the next cycle can never start and retired memory grows without bound', sub='completed-epoch')
    # the boolean result: true only after the batch was drained
    # (`_0 = true` written in try_freeing itself; when the result is no boolean constant written here - an enum, a
    # helper's result - the same obligation is decided in the caller: P12f "signal cleared only after the deletes")
    trues = []
    for n in g.nodes:
        if n.id in g.live() and n.kind == 'block' and n.inst == g.root_inst:
            for s_ in n.stmts:
                if s_['k'] == 'assign' and s_['pl']['l'] == 0 and not s_['pl']['p'] and s_['rv']['k'] == 'use' and s_['rv']['op']['k'] == 'const' and str(s_['rv']['op'].get('v')) == '1':
                    trues.append(x.rep(n.id))
    ok2 = all(x.dom(set(drains), t) for t in trues)
    ctx.add('P12i', 'T-DOM', fn, ok2, 'try_freeing reports success only after deleting the batch' if trues else
            'try_freeing\'s result is not a boolean constant written in the function: decided in the caller (P12f cycle-end)', sub='result')


def _p1h(ctx):
    """the fullness test compares (head observation - ring size) with the tail: the subtrahend is exactly mask+1 of the head index"""
    from rules_send import send_entry, _head
    root = send_entry(ctx)
    for fl in FLAVOURS:
        g = ctx.graph(root, fl)
        x = g.x
        H = {a.nid for a in _head(x) if a.op == 'load' or a.op in CAS_OPS}
        n = 0
        for t_ in x.tests(('Eq',)):
            sid = t_.sid
            for (p_, q_) in ((t_.a, t_.b), (t_.b, t_.a)):
                lp = x.loads_in(p_)
                lq = x.loads_in(q_)
                # (other loads on the head's side - a window read from a field - are judged below, not a reason to miss the test)
                if lp and any(a.nid in H for a in lp) and lq and any(a.on('MultiQueue.tail_cache', 'ReaderPos.pos_data') for a in lq) and not any(a.nid in H for a in lq) \
                        and not any(a.on('MultiQueue.tail_cache', 'ReaderPos.pos_data') for a in lp):
                    n += 1
                    subs = [s_ for s_ in g.walk(p_) if s_[0] == 'call' and re.search(r'wrapping_sub$', g.call_name(s_[1]) or '')]
                    ok = False
                    if len(subs) == 1:
                        a0, a1 = g.call_args(subs[0][1])
                        adds = [s_ for s_ in g.walk(a1) if s_[0] == 'call' and re.search(r'wrapping_add$', g.call_name(s_[1]) or '')]
                        if len(adds) == 1:
                            b0, b1 = g.call_args(adds[0][1])
                            is_mask = any(s_[0] == 'fld' and s_[2] == 'CountedIndex.mask' and any('MultiQueue.head' in pp for pp in g.locpaths(('ref', s_))) for s_ in g.walk(b0)) or \
                                any(s_[0] == 'fld' and s_[2] == 'Transaction.mask' for s_ in g.walk(b0))
                            ok = is_mask and _const_of(g, b1) == '1' and all(a.nid in H for a in x.loads_in(a0)) and g.strip(a1) == g.strip(adds[0])
                    ctx.add('P1h', 'T-FLOW', g.nodes[sid].fn, ok, 'fullness test: (observed head - (mask+1)) == tail, with the mask of the head index' if ok else
                            'the fullness test does not subtract exactly the ring size (mask + 1) of the head index from the observed head: the window is not N', flavour=fl,
                            where=g.where(sid), sub='window#i%d.bb%d' % (g.nodes[sid].inst, g.nodes[sid].bb))
                    break
        ctx.floor('P1h', n, 2, 'fullness tests')


def _tagconst(ctx):
    """tag-bit constants: is_tagged and rm_tag use complementary masks; the initial slot tag has the
    tag bit set (never-written slots are not dropped and never match a position)"""
    gi = ctx.graph(ctx.fn1(r'^countedindex::is_tagged$'))
    gr = ctx.graph(ctx.fn1(r'^countedindex::rm_tag$'))
    ri = gi.strip(gi.ev_local(gi.root_inst, 0))
    rr = gr.strip(gr.ev_local(gr.root_inst, 0))
    ind = tagm = None
    ind = _bit_test_const(gi, ri)
    if rr[0] == 'bin' and rr[1] == 'BitAnd':
        tagm = _const_of(gr, rr[3]) or _const_of(gr, rr[2])
    ok = ind is not None and tagm is not None and ind.isdigit() and tagm.isdigit() and int(ind) & int(tagm) == 0 and int(ind) | int(tagm) == 2 ** 64 - 1 and int(ind) == int(tagm) + 1
    ctx.add('P3t', 'T-FLOW', ctx.fn1(r'^countedindex::rm_tag$'), ok, 'tag bit (%s) and count mask (%s) are complementary' % (ind, tagm) if ok else
            'is_tagged / rm_tag masks are not complementary (tag bit %s, count mask %s)' % (ind, tagm), sub='masks')
    ni = ctx.graph(ctx.fn1(r'^multiqueue::MultiQueue::<.*>::new_internal$'), 'BCast')
    inits = [a for a in ni.x.atoms_on('QueueEntry.wraps') if a.op == 'store']
    ctx.floor('P3t', len(inits), 1, 'initial tag store')
    for a in inits:
        v = _const_of(ni, ni.call_args(a.nid)[1])
        ok2 = v is not None and v.isdigit() and ind is not None and ind.isdigit() and int(v) & int(ind) != 0
        ctx.add('P3t', 'T-FLOW', ctx.fn1(r'^multiqueue::MultiQueue::<.*>::new_internal$'), ok2, 'never-written slots carry the tag bit (not dropped by the writer / destructor, never equal to a position)' if ok2 else
                'initial slot tag %s lacks the tag bit: the writer / destructor would drop uninitialised memory of a never-written slot' % v, where=ni.where(a.nid), sub='initial-tag')
    # the tag test on the receive side masks with the same count mask and compares with the unmodified position
    rc = ctx.graph(ctx.fn1(r'^multiqueue::InnerRecv::<.*>::try_recv$'), 'BCast')
    x = rc.x
    POSOBS = {a.nid for a in x.atoms_on('ReaderPos.pos_data') if a.op == 'load' or a.op in CAS_OPS}
    n = 0
    for t_ in x.tests(('Eq',)):
        sid = t_.sid
        if True:
            for (p_, q_) in ((t_.a, t_.b), (t_.b, t_.a)):
                lp = [a for a in x.loads_in(p_) if a.on('QueueEntry.wraps')]
                lq = x.loads_in(q_)
                if lp and lq and all(a.nid in POSOBS for a in lq):
                    n += 1
                    pp = rc.strip(p_)
                    okm = pp[0] == 'bin' and pp[1] == 'BitAnd' and (_const_of(rc, pp[3]) == tagm or _const_of(rc, pp[2]) == tagm)
                    arith = [s_ for s_ in rc.walk(q_) if s_[0] in ('bin', 'un')]
                    ctx.add('P3t', 'T-FLOW', rc.nodes[sid].fn, okm and not arith, 'tag test: (tag & count mask) against the unmodified stream position' if okm and not arith else
                            'tag test does not compare (tag & count mask) with the unmodified stream position (mask ok=%s, arithmetic on the position=%s)' % (okm, bool(arith)),
                            where=rc.where(sid), sub='tagtest.bb%d' % rc.nodes[sid].bb)
                    break
    ctx.floor('P3t', n, 2, 'tag tests in try_recv')
    # the pin re-check compares two unmodified observations of the position
    for t_ in x.tests(('Eq',)):
        sid = t_.sid
        if True:
            la, lb = x.loads_in(t_.a), x.loads_in(t_.b)
            if la and lb and all(a.nid in POSOBS for a in la + lb) and not any(a.on('QueueEntry.wraps') for a in la + lb):
                arith = [s_ for s_ in rc.walk(t_.a) if s_[0] in ('bin', 'un')] + [s_ for s_ in rc.walk(t_.b) if s_[0] in ('bin', 'un')]
                ctx.add('P3t', 'T-FLOW', rc.nodes[sid].fn, not arith, 'pin re-check compares two unmodified position observations' if not arith else
                        'pin re-check compares a masked / modified value with the position', where=rc.where(sid), sub='recheck.bb%d' % rc.nodes[sid].bb)


def _p9g(ctx):
    """conversions that go through a temporary second handle raise the consumer count before dropping the original"""
    for nm in (r'^multiqueue::FutInnerRecv::<.*>::into_single$',):
        fn = ctx.fn1(nm)
        g = ctx.graph(fn, 'MPMC')
        x = g.x
        incs = {a.nid for a in x.atoms_on('ReaderMeta.num_consumers') if a.op == 'fetch_add'}
        decs = {a.nid for a in x.atoms_on('ReaderMeta.num_consumers') if a.op == 'fetch_sub'}
        # dropping a receiver handle runs its Drop impl (unsubscribe: count-1); drop glue is not inlined
        for n_ in x.ext_calls(r'mem::drop$'):
            ty = (g.nodes[n_].term.get('generics') or [''])[0]
            if re.search(r'multiqueue::(Fut)?Inner(Uni)?Recv<', ty):
                decs.add(n_)
        for nd in g.nodes:
            if nd.id in g.live() and nd.kind == 'block' and nd.term['k'] == 'drop' and g.x.home(nd.id) == g.root_inst and \
                    re.search(r'multiqueue::(Fut)?Inner(Uni)?Recv<', nd.term['dty']['s']):
                decs.add(x.rep(nd.id))
        tests = {a.nid for a in x.atoms_on('ReaderMeta.num_consumers') if a.op == 'load'}
        ok = bool(incs) and bool(decs) and all(x.dom(incs, d) for d in decs)
        # the single-consumer test is made after the original handle was dropped
        ok2 = bool(tests) and all(x.dom(decs, t) for t in tests if any(x.reaches(d, t) for d in decs)) and any(x.dom(decs, t) for t in tests)
        ctx.add('P9g', 'T-DOM', fn, ok and ok2, 'into_single: clone (count+1) -> drop the original (count-1) -> test count==1' if ok and ok2 else
                'into_single does not clone before dropping the original / tests the count before the original is gone (clone first=%s, test after drop=%s)' % (ok, ok2), sub='order')


def _p11g(ctx):
    F = ctx.F
    n = 0
    subjects = set()
    for name, f in F.fns.items():
        if f.get('from_expansion'):
            continue
        hit = False
        for b_ in f['blocks']:
            for s in b_['stmts']:
                if s['k'] == 'assign' and s['rv']['k'] == 'agg' and s['rv']['ak'] == 'adt' and re.search(r'multiqueue::FutInner(Send|Recv|UniRecv)$', s['rv']['adt']):
                    hit = True
        if hit:
            subjects |= ctx.subjects_for(name)
    for name in sorted(subjects):
        g = ctx.graph(name, 'MPMC')
        x = g.x
        installed = set()
        for c in x.inlined(r'multiqueue::MultiQueue::<.*>::new_internal$'):
            installed |= x.calls_in(g.ev_local(g.nodes[c].call['inlined'], 2))
        for (nid, si, rv) in x.aggs(r'multiqueue::FutInner(Send|Recv|UniRecv)::'):
            if x.home(nid) != g.root_inst:
                continue
            n += 1
            e = x.agg_expr(nid, si)
            res = {}
            for fld in ('wait', 'prod_wait'):
                v = e[4][e[3].index(fld)]
                from_fields = {s[2].split('.')[-1] for s in g.deep_walk(v) if s[0] == 'fld' and re.search(r'FutInner\w+\.(wait|prod_wait)$', s[2])}
                calls = x.calls_in(v)
                res[fld] = (from_fields, bool(calls & installed) if installed else None)
            okw = res['wait'][0] == {'wait'} or (not res['wait'][0] and res['wait'][1] is True)
            okp = res['prod_wait'][0] == {'prod_wait'} or (not res['prod_wait'][0] and res['prod_wait'][1] is False)
            ctx.add('P11g', 'T-FLOW', name, okw and okp,
                    'consumer task list and producer task list keep their roles in every futures handle' if okw and okp else
                    '%s builds a futures handle with the task lists mixed up (wait <- %s, prod_wait <- %s): parked tasks would be registered on a list nobody drains for them'
                    % (short_fn(name), sorted(res['wait'][0]) or res['wait'][1], sorted(res['prod_wait'][0]) or res['prod_wait'][1]),
                    where=x.where_stmt(nid, si), sub='lists.bb%d' % g.nodes[nid].bb)
    ctx.floor('P11g', n, 8, 'constructions of futures handles')


def _p10g(ctx):
    fn = ctx.fn1(r'^read_cursor::ReaderGroup::get_max_diff$')
    g = ctx.graph(fn)
    x = g.x
    scans = {a.nid for a in x.atoms_on('ReaderPos.pos_data') if a.op == 'load'}
    somes = [(nid, si) for (nid, si, rv) in x.aggs(r'option::Option::Some$') if x.home(nid) == g.root_inst]
    ctx.floor('P10g', len(somes), 1, 'Some(result) of the scan')
    ok = False
    why = 'no max-fold found'
    if x.ext_calls(r'cmp::(max|Ord::max)$|Ord>?::max$|Iterator::max$'):
        ok = True
    for t_ in x.tests(('Lt',)):
        sid = t_.sid
        if True:
            a, b_ = t_.a, t_.b

            def is_dist(z):
                return z[0] == 'call' and bool({s.nid for s in x.loads_in(z)} & scans) and not (z[0] == 'phi')

            def is_acc(z):
                return z[0] == 'phi' and any(g.strip(t)[0] == 'c' for t in z[1])
            if is_dist(a) and is_acc(b_):      # dist < acc
                edges, others = t_.false, t_.true
            elif is_acc(a) and is_dist(b_):    # acc < dist
                edges, others = t_.true, t_.false
            else:
                continue
            dist = a if is_dist(a) else b_
            # on the edge "distance > accumulator" the accumulator takes the distance; on the other edge it is kept
            # find the assignment statements  acc = dist / acc = acc  right after the edges
            takes = set()
            keeps = set()
            for (es, bucket) in ((edges, takes), (others, keeps)):
                for ed in es:
                    for s_ in g.nodes[ed].succs:
                        nd = g.nodes[s_]
                        for st in nd.stmts:
                            if st['k'] == 'assign' and st['rv']['k'] == 'use' and st['rv']['op']['k'] in ('copy', 'move'):
                                v = g.strip(g.ev_op(nd.inst, st['rv']['op'], at=(nd.id, 0)))
                                bucket.add('dist' if is_dist(v) else ('acc' if is_acc(v) or v[0] == 'c' else '?'))
            ok = takes == {'dist'} and keeps <= {'acc'}
            why = 'on the "distance > accumulator" edge the accumulator takes %s, otherwise %s' % (sorted(takes), sorted(keeps))
    ctx.add('P10g', 'T-FLOW', fn, ok, 'the scan result is the maximum distance over all streams (the slowest stream bounds the writer)' if ok else
            'the stream scan does not fold with max (%s): the writer would be bounded by the wrong stream and overwrite unconsumed values' % why, sub='max-fold')
    # the distance that is folded is (writer position - stream position): `past(cur_writer, rpos)`, not the other way round
    dirs = []
    for n_ in g.live():
        nd = g.nodes[n_]
        if nd.call is None or nd.call['inlined'] is not None or not re.search(r'wrapping_sub$', g.call_name(n_) or ''):
            continue
        a_ = g.call_args(n_)[:2]
        if len(a_) < 2:
            continue
        from_w = [any(s_[0] == 'param' and s_[1] == g.root_inst and s_[2] == 2 for s_ in g.deep_walk(z_)) for z_ in a_]
        from_p = [bool({s.nid for s in x.loads_in(z_)} & scans) for z_ in a_]
        if any(from_w) and any(from_p):
            dirs.append(from_w[0] and not from_p[0] and from_p[1] and not from_w[1])
    if dirs:
        okd = all(dirs)
        ctx.add('P10g', 'T-FLOW', fn, okd, 'the scan measures (writer position - stream position)' if okd else
                'the stream scan subtracts the writer position from the stream position (arguments of past() exchanged): every stream looks "too far", or the maximum is taken over negated distances - the writer is bounded by the wrong stream',
                sub='distance-direction')
    for (nid, si) in somes:
        e = x.agg_expr(nid, si)
        okr = any(s[0] == 'phi' for s in g.walk(e)) or bool(x.calls_in(e))
        ctx.add('P10g', 'T-FLOW', fn, okr, 'the result returned is the accumulator', where=x.where_stmt(nid, si), sub='result')


ITER_KIND = {
    'RefIter': 'try_recv', 'SCRefIter': 'try_recv', 'UniRefIter': 'try_recv_view',
    'Iter': 'recv', 'SCIter': 'recv', 'UniIter': 'recv_view',
}


def _s3i(ctx):
    F = ctx.F
    n = 0
    for name, f in F.fns.items():
        m = re.match(r'^<(broadcast|mpmc)::(\w+?)(<.*>)? as std::iter::Iterator>::next$', name)
        if not m:
            continue
        ty = m.group(2)
        kind = None
        for suf in sorted(ITER_KIND, key=len, reverse=True):
            if ty.endswith(suf):
                kind = ITER_KIND[suf]
                break
        if kind is None:
            continue
        n += 1
        calls = []
        for b_ in f['blocks']:
            t = b_['term']
            if t['k'] == 'call' and 'fn' in t and re.match(r'^(broadcast|mpmc|multiqueue)::', (t.get('resolved') or t['fn'])):
                calls.append(short_fn(t.get('resolved') or t['fn']).split('::')[-1])
        ok = calls == [kind]
        ctx.add('S3', 'T-SIB', name, ok, '%s::next uses %s (non-blocking iterators never block, blocking ones end only at disconnect)' % (ty, kind) if ok else
                '%s::next calls %s but this iterator kind must use `%s`' % (ty, calls, kind), sub='iter-kind')
    ctx.floor('S3', n, 1, 'iterator impls')
    # every iterator the wrapper layer hands out is one of those vetted types: for a foreign adaptor (`impl Iterator`
    # built from take_while / scan / fuse ..) the per-call behaviour of `next` - one receive per call, None exactly
    # when that receive fails, and again a receive on the next call - cannot be read off its type
    vetted = set()
    for name in F.fns:
        m = re.match(r'^<((broadcast|mpmc)::\w+?)(<.*>)? as std::iter::Iterator>::next$', name)
        if m:
            vetted.add(m.group(1))
    for im in F.impls:
        adt = im['self_ty'].get('adt') or (im['self_ty'].get('inner') or {}).get('adt') or ''
        if not re.match(r'^(broadcast|mpmc)::', adt):
            continue
        for it in im['items']:
            if it['kind'] != 'AssocFn' or it['name'] not in ('iter_with', 'try_iter_with', 'try_iter', 'iter', 'into_iter'):
                continue
            ret = it['sig'].rsplit('->', 1)[-1].strip() if '->' in it['sig'] else ''
            base = re.match(r'^([\w:]+)', ret)
            okr = bool(base) and base.group(1) in vetted
            if not okr and ret.startswith('impl ') and it['path'] in F.fns:
                # `iter::from_fn(|| one receive)` is exactly such an iterator: next() is one call of the closure, nothing
                # is remembered between calls.  Accepted when it is the only adaptor and the closure makes the one
                # receive call this kind of iterator must make
                want = {'iter_with': 'recv_view', 'try_iter_with': 'try_recv_view', 'try_iter': 'try_recv', 'iter': 'recv', 'into_iter': None}[it['name']]
                g = ctx.graph(it['path'], 'BCast')
                x = g.x
                ff = x.ext_calls(r'iter::(sources::from_fn::)?from_fn$')
                other = [n_ for n_ in x.ext_calls(r'iter::|Iterator::') if n_ not in ff]
                recvs = sorted({short_fn(g.call_name(n_) or '').split('::')[-1] for n_ in g.live() if g.nodes[n_].call is not None and
                                re.match(r'^(broadcast|mpmc)::\w+(::<.*>)?::(try_recv|recv|try_recv_view|recv_view)$', g.call_name(n_) or '')})
                okr = len(ff) == 1 and not other and want is not None and recvs == [want]
            ctx.add('S3', 'T-SIB', it['path'], okr, '%s returns the crate iterator %s' % (short_fn(it['path']), ret) if okr else
                    '%s returns `%s`, which is not one of the crate\'s iterator types: whether its next() makes exactly one receive per call and ends (only for that call) when the receive fails depends on foreign adaptors'
                    % (short_fn(it['path']), ret), sub='iter-type')


# ----------------------------------------------------------------------------------------
# P15m: the index arithmetic helpers keep their shape (operator family and which inputs flow where)
# ----------------------------------------------------------------------------------------

def _norm(g, e):
    e = g.strip(e)
    while True:
        if e[0] == 'fld' and e[2] == '0' and g.strip(e[1])[0] == 'bin' and g.strip(e[1])[1].endswith('WithOverflow'):
            b = g.strip(e[1])
            e = ('bin', b[1].replace('WithOverflow', ''), b[2], b[3])
            continue
        if e[0] == 'cast':
            e = e[2]
            continue
        if e[0] == 'deref' or (e[0] == 'ref'):
            # places are compared by field path
            return e
        return e


def _is(g, e, what, arg=None):
    """tiny structural predicates on normalised expressions"""
    e = _norm(g, e)
    if what == 'param':
        return e == ('param', g.root_inst, arg)
    if what == 'const':
        return e[0] == 'c' and str(e[1]) == str(arg)
    if what == 'field':
        return e[0] == 'fld' and e[2].endswith(arg) or (e[0] == 'deref' and _is(g, e[1], 'field', arg))
    return False


def _binop(g, e, ops, commutative=False):
    """-> (a, b) if e is `a op b` with op in ops (bin or wrapping_* / checked call), else None"""
    e = _norm(g, e)
    if e[0] == 'bin' and e[1].replace('Unchecked', '') in ops:
        return (e[2], e[3])
    if e[0] == 'call':
        nm = g.call_name(e[1]) or ''
        for op in ops:
            if re.search(r'(wrapping|unchecked|saturating)?_?%s$' % op.lower(), nm.split('::')[-1]):
                a = g.call_args(e[1])
                if len(a) == 2:
                    return (a[0], a[1])
    return None


def _fld_of(g, e, suffix):
    e = _norm(g, e)
    for s_ in g.walk(e):
        if s_[0] == 'fld' and s_[2].endswith(suffix):
            return True
    return False


def _p15m(ctx):
    F = ctx.F
    gr = ctx.graph(ctx.fn1(r'^countedindex::rm_tag$'))
    rr = gr.strip(gr.ev_local(gr.root_inst, 0))
    tagm = _const_of(gr, rr[3]) if rr[0] == 'bin' else None

    def rule(fn, ok, good, bad, sub):
        ctx.add('P15m', 'T-FLOW', fn, ok, good if ok else bad, sub=sub)

    for nm, vp in ((r'^countedindex::CountedIndex::new$', None), (r'^countedindex::CountedIndex::from_usize$', 1)):
        fn = ctx.fn1(nm)
        g = ctx.graph(fn)
        r = g.strip(g.ev_local(g.root_inst, 0))
        ok = False
        if r[0] == 'agg' and 'mask' in r[3]:
            wrap_param = g.insts[g.root_inst].body['arg_count']
            b = _binop(g, r[4][r[3].index('mask')], {'Sub'})
            ok = b is not None and _is(g, b[0], 'param', wrap_param) and _is(g, b[1], 'const', 1)
            if vp is not None:
                v = g.strip(r[4][r[3].index('val')])
                ok = ok and v[0] == 'call' and _is(g, g.call_args(v[1])[0], 'param', vp)
        rule(fn, ok, 'index mask = wrap - 1 (and the initial count is the given one)', '%s: mask is not wrap - 1 / initial count not the given value' % short_fn(fn), 'mask')
    fn = ctx.fn1(r'^countedindex::CountedIndex::wrap_at$')
    g = ctx.graph(fn)
    b = _binop(g, g.ev_local(g.root_inst, 0), {'Add'})
    ok = b is not None and ((_fld_of(g, b[0], 'CountedIndex.mask') and _is(g, b[1], 'const', 1)) or (_fld_of(g, b[1], 'CountedIndex.mask') and _is(g, b[0], 'const', 1)))
    rule(fn, ok, 'wrap_at = mask + 1', 'wrap_at is not mask + 1', 'wrap_at')
    fn = ctx.fn1(r'^countedindex::Transaction::<.*>::get$')
    g = ctx.graph(fn)
    r = g.strip(g.ev_local(g.root_inst, 0))
    ok = False
    if r[0] == 'agg' and len(r[4]) == 2:
        b = _binop(g, r[4][0], {'BitAnd'})
        ok = b is not None and ((_fld_of(g, b[0], 'loaded_vals') and _fld_of(g, b[1], 'Transaction.mask')) or (_fld_of(g, b[1], 'loaded_vals') and _fld_of(g, b[0], 'Transaction.mask'))) \
            and _fld_of(g, r[4][1], 'loaded_vals') and _binop(g, r[4][1], {'BitAnd', 'Add', 'Sub'}) is None
    rule(fn, ok, 'slot index = count & mask; tag = the unmodified count', 'Transaction::get does not return (count & mask, count)', 'get')
    # (the subtraction itself is checked where it is used: "refreshed tail" below; the helper may have been inlined)
    for fn in F.find_fns(r'^countedindex::CountedIndex::get_previous$'):
        g = ctx.graph(fn)
        b = _binop(g, g.ev_local(g.root_inst, 0), {'Sub'})
        ok = b is not None and _is(g, b[0], 'param', 1) and _is(g, b[1], 'param', 2)
        rule(fn, ok, 'get_previous = start - by', 'get_previous is not start - by', 'get_previous')
    fn = ctx.fn1(r'^countedindex::past$')
    g = ctx.graph(fn)
    r = g.strip(g.ev_local(g.root_inst, 0))
    ok = False
    if r[0] == 'agg' and len(r[4]) == 2:
        d = _binop(g, r[4][0], {'Sub'})
        c = _norm(g, r[4][1])
        ok = d is not None and _is(g, d[0], 'param', 1) and _is(g, d[1], 'param', 2) and c[0] == 'bin' and c[1] == 'Gt' and \
            _binop(g, c[2], {'Sub'}) is not None and _norm(g, c[3])[0] == 'c'
    rule(fn, ok, 'past(check, seq) = (check - seq, check - seq > MAX_WRAP)', 'past() is not (check - seq, check - seq > MAX_WRAP)', 'past')
    for nm in (r'^countedindex::Transaction::<.*>::commit_direct$', r'^countedindex::Transaction::<.*>::commit$'):
        fn = ctx.fn1(nm)
        g = ctx.graph(fn)
        for a in g.x.atoms.values():
            if a.op not in WRITE_OPS:
                continue
            args = g.call_args(a.nid)
            newv = args[2] if a.op in CAS_OPS else args[1]
            b = _binop(g, newv, {'BitAnd'})
            ok = False
            if b is not None:
                for (p_, q_) in ((b[0], b[1]), (b[1], b[0])):
                    if _const_of(g, q_) == tagm:
                        s_ = _binop(g, p_, {'Add'})
                        ok = s_ is not None and _fld_of(g, s_[0], 'loaded_vals') and _is(g, s_[1], 'param', 2)
            if a.op in CAS_OPS:
                ok = ok and _fld_of(g, args[1], 'loaded_vals') and _binop(g, args[1], {'BitAnd', 'Add', 'Sub'}) is None
            rule(fn, ok, 'new count = (observed count + by) & count mask' + (' ; CAS expects the observed count' if a.op in CAS_OPS else ''),
                 '%s does not store (observed count + by) & count mask' % short_fn(fn), short_fn(fn).split('::')[-1])
    # the refreshed tail = head observation - scan result (read off the send entry point, wherever the code lives)
    from rules_send import send_entry, _head
    fn = send_entry(ctx)
    for fl in FLAVOURS:
        g = ctx.graph(fn, fl)
        x = g.x
        H = {a.nid for a in _head(x) if a.op == 'load' or a.op in CAS_OPS}
        ws = [a for a in x.atoms_on('MultiQueue.tail_cache') if a.op in WRITE_OPS]
        ok = bool(ws)
        for a in ws:
            args = g.call_args(a.nid)
            newv = args[2] if a.op in CAS_OPS else args[1]
            b = _binop(g, newv, {'Sub'})
            scan = {s_.nid for s_ in x.loads_in(newv) if s_.on('ReaderPos.pos_data')}
            okw = b is not None and bool(scan) and bool({s_.nid for s_ in x.loads_in(b[1])} & scan)
            if okw:
                l0 = {s_.nid for s_ in x.loads_in(b[0])}
                okw = bool(l0) and l0 <= H and not [s_ for s_ in g.walk(b[0]) if s_[0] in ('bin', 'un')]
            ok = ok and okw
        rule(fn, ok, 'refreshed tail = observed head count - largest stream distance', 'the send path does not store (observed head - scan result) into the tail cache', 'reload_tail.' + fl)
