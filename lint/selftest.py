"""Self-test corpus runner (E4b): apply each variant of variants.py to a scratch copy of the
*current* /repo (outside /repo and /verif, removed afterwards), extract facts, run all rule
groups and compare the set of failing rules with the expectation.

  python3 selftest.py [--only ID[,ID..]] [--jobs N] [--json OUT]
"""
import json
import os
import shutil
import sys
import tempfile
import time
import traceback
from concurrent.futures import ProcessPoolExecutor

HERE = os.path.dirname(os.path.abspath(__file__))
sys.path.insert(0, HERE)

import extract  # noqa: E402
from core import Facts, CheckError  # noqa: E402
from engine import Ctx  # noqa: E402
import rules  # noqa: E402
from variants import VARIANTS  # noqa: E402

REPO = os.environ.get('MQ2_REPO', '/repo')


def make_scratch(variant, idx):
    base = tempfile.mkdtemp(prefix='mq2v-%d-' % idx)
    for name in ('Cargo.toml', 'Cargo.lock'):
        shutil.copy(os.path.join(REPO, name), os.path.join(base, name))
    shutil.copytree(os.path.join(REPO, 'src'), os.path.join(base, 'src'))
    for d in ('tests', 'examples', 'benches'):
        if os.path.isdir(os.path.join(REPO, d)):
            shutil.copytree(os.path.join(REPO, d), os.path.join(base, d))
    applied = True
    if variant.get('patch'):
        import subprocess
        r = subprocess.run(['patch', '-p1', '-s', '--no-backup-if-mismatch', '-i', variant['patch']], cwd=base,
                           stdout=subprocess.PIPE, stderr=subprocess.STDOUT, text=True)
        applied = r.returncode == 0
    for ed in variant['edits']:
        p = os.path.join(base, ed['file'])
        s = open(p).read()
        cnt = s.count(ed['old'])
        want = ed.get('count', 1)
        if cnt != want:
            applied = False
            break
        s = s.replace(ed['old'], ed['new'])
        open(p, 'w').write(s)
    return base, applied


def run_variant(args):
    idx, variant, baseline_fail = args
    t0 = time.time()
    base, applied = make_scratch(variant, idx)
    out = {'id': variant['id'], 'kind': variant['kind'], 'property': variant.get('property'),
           'expect': variant.get('expect', [])}
    try:
        if not applied:
            out['status'] = 'skipped'
            out['why'] = 'edit no longer applies to the current tree'
            return out
        try:
            facts_path, _ = extract.extract(crate_dir=base, tag='selftest%d' % (idx % 8), config='dev',
                                            out=os.path.join(extract.WORK, 'facts-selftest-%d-%d.json' % (os.getppid(), idx)))
        except extract.ExtractError as e:
            out['status'] = 'skipped'
            out['why'] = 'variant does not compile: ' + str(e)[-300:]
            return out
        if variant.get('property') == 'C19':
            import subprocess
            r = subprocess.run([os.path.join(os.path.dirname(HERE), 'check'), 'C19'], env=dict(os.environ, MQ2_REPO=base),
                               stdout=subprocess.PIPE, stderr=subprocess.STDOUT, text=True)
            out['failing_rules_new'] = sorted({l.split('violated:')[1].split()[0] for l in r.stdout.split('\n') if 'violated:' in l})[:6]
            out['status'] = 'fired' if r.returncode == 1 else ('MISSED' if variant['kind'] == 'violating' else 'silent')
            try:
                os.remove(facts_path)
            except OSError:
                pass
            return out
        F = Facts(facts_path)
        ctx = Ctx(F)
        err = None
        try:
            rules.run_all(ctx)
        except CheckError as e:
            err = 'CHECK-ERROR: %s' % e
        if ctx.errors and not err:
            err = 'CHECK-ERROR: %s' % '; '.join(ctx.errors)[:400]
        failing = sorted({r.rule for r in ctx.results if not r.ok})
        keys = sorted({r.key() for r in ctx.results if not r.ok})
        new = [k for k in keys if k not in baseline_fail]
        newrules = sorted({k.split('|')[0] for k in new})
        out['failing_rules_new'] = newrules
        out['failing_keys_new'] = new[:20]
        out['check_error'] = err
        if variant['kind'] == 'repair':
            # a repaired form of a known finding: the finding's key must disappear and nothing new may appear
            still = [k for k in variant.get('fixes', []) if k in keys]
            out['status'] = 'silent' if not still and not newrules and not err else 'FALSE-ALARM'
            out['failing_rules_new'] = newrules + ['still:' + k.split('|')[0] for k in still]
        elif variant['kind'] == 'violating':
            exp = set(variant.get('expect', []))
            hit = bool(exp & set(newrules)) if exp else bool(newrules)
            out['status'] = 'fired' if hit else ('fired-other' if newrules or err else 'MISSED')
        else:
            out['status'] = 'silent' if not newrules and not err else 'FALSE-ALARM'
        try:
            os.remove(facts_path)
        except OSError:
            pass
    except Exception:
        out['status'] = 'error'
        out['why'] = traceback.format_exc()[-800:]
    finally:
        shutil.rmtree(base, ignore_errors=True)
        out['wall_s'] = round(time.time() - t0, 2)
    return out


def baseline_failures():
    facts_path, _ = extract.extract(crate_dir=REPO, tag='repo', config='dev')
    F = Facts(facts_path)
    ctx = Ctx(F)
    rules.run_all(ctx)
    return sorted({r.key() for r in ctx.results if not r.ok})


def main():
    only = None
    jobs = 8
    outp = None
    a = sys.argv[1:]
    while a:
        if a[0] == '--only':
            only = set(a[1].split(','))
            a = a[2:]
        elif a[0] == '--jobs':
            jobs = int(a[1])
            a = a[2:]
        elif a[0] == '--json':
            outp = a[1]
            a = a[2:]
        else:
            a = a[1:]
    base = baseline_failures()
    vs = [v for v in VARIANTS if only is None or v['id'] in only]
    res = []
    with ProcessPoolExecutor(max_workers=jobs) as ex:
        for r in ex.map(run_variant, [(i, v, base) for i, v in enumerate(vs)]):
            res.append(r)
            print('%-12s %-44s expect=%-18s new=%s %s' % (r['status'], r['id'], ','.join(r['expect']), ','.join(r.get('failing_rules_new', [])), (r.get('why') or r.get('check_error') or '')[:150]))
    bad = [r for r in res if r['status'] in ('MISSED', 'FALSE-ALARM', 'error')]
    print('variants=%d fired=%d silent=%d skipped=%d bad=%d' % (
        len(res), sum(r['status'] in ('fired', 'fired-other') for r in res), sum(r['status'] == 'silent' for r in res),
        sum(r['status'] == 'skipped' for r in res), len(bad)))
    if outp:
        json.dump(res, open(outp, 'w'), indent=1)
    return 1 if bad else 0


if __name__ == '__main__':
    sys.exit(main())
