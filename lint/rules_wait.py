"""Blocking / waking rules: P6a-d P7a-e P8 (DESIGN.md section 4)."""
import re
from core import CheckError, short, short_fn
from engine import has_release, has_acquire, norm_rel, is_const
from rules_send import FLAVOURS, WRITE_OPS, CAS_OPS, index_sources
from rules_recv import recv_roots

BLOCKING_RE = r'Condvar(::<.*>)?::wait(_for|_until|_while|_timeout)?$|thread::park(_timeout)?$|JoinHandle(::<.*>)?::join$|mpsc::(Receiver|Sender|SyncSender)(::<.*>)?::(recv|send)$|sync::(Barrier)::wait$'
LOCK_RE = r'(Mutex|RwLock)(::<.*>)?::(lock|write|read)$'
PANIC_RE = r'panicking::(panic|panic_fmt|panic_display|panic_explicit|begin_panic)|rt::(panic_fmt|begin_panic)|option::expect_failed|result::unwrap_failed|option::unwrap_failed'


def guard_drops(g, x, L):
    out = set()
    for n in g.nodes:
        if n.id in g.live() and n.kind == 'block' and n.term['k'] == 'drop' and 'Guard' in n.term['dty']['s']:
            if L in x.calls_in(g.ev_place(n.inst, n.term['pl']), deep=False):
                out.add(n.id)
    for n in x.ext_calls(r'mem::drop$'):
        a = g.call_args(n)
        if a and L in x.calls_in(a[0], deep=False):
            out.add(n)
    return out


def held_at(g, x, locks, n):
    """n executes only while one of `locks` (same mutex) is held"""
    locks = set(locks)
    if not locks:
        return False
    drops = set()
    for L in locks:
        drops |= guard_drops(g, x, L)
    if not x.dom(x.expand_sites(locks), n):
        return False
    # not reachable from a guard drop without re-locking
    for d in drops:
        if n in x.reach_from(d, blocked=x.expand_sites(locks)):
            return False
    return True


def locks_on(g, x, field):
    return [n for n in x.ext_calls(LOCK_RE) if any(field in p for p in g.locpaths(g.call_args(n)[0]))]


def run(ctx):
    ctx.step(_run, ctx)


def _p6_root(ctx, r, fl, shared):
    _p6(ctx, ctx.graph(r, fl), r, fl, shared=shared)


def _run(ctx):
    ctx.step(_p7k, ctx)
    shared, view = recv_roots(ctx)
    for fl in FLAVOURS:
        for r in shared:
            ctx.step(_p6_root, ctx, r, fl, True)
        for r in view:
            ctx.step(_p6_root, ctx, r, fl, False)
    ctx.step(_p7, ctx)
    ctx.step(_p8, ctx)


def is_blocking_loop(g, x):
    return bool(x.ext_calls(r'wait::Wait::wait$')) or bool(x.inlined(r'FutWait::fut_wait$'))


def _p6(ctx, g, root, fl, shared):
    x = g.x
    rsub = short_fn(root)
    waits = x.ext_calls(r'wait::Wait::wait$')
    futw = x.inlined(r'FutWait::fut_wait$')
    pos = x.atoms_on('ReaderPos.pos_data')
    POSOBS = {a.nid for a in pos if a.op == 'load' or a.op in CAS_OPS}
    tagloads = {a.nid for a in x.atoms_on('QueueEntry.wraps', ops={'load'})}
    # a: signal examined before the first try (every receive root, blocking or not)
    sig = {a.nid for a in x.atoms_on('AtomicSignal.flags', ops={'load'})}
    ok = bool(sig) and all(x.dom(sig, t) for t in tagloads)
    ctx.add('P6a', 'T-MUST', root, ok, 'the signal word is examined before the first receive attempt' if ok else
            'a receive attempt is reachable without examining the signal word (epoch announcements would be skipped)', flavour=fl, sub=rsub)
    if not waits and not futw:
        return   # try_* root: nothing to wait on
    # b: result mapping
    disc = {nid for (nid, si, rv) in x.aggs(r'TryRecvError::Disconnected$')}
    empt = {nid for (nid, si, rv) in x.aggs(r'TryRecvError::Empty$')}
    ends = set()
    for (nid, si, rv) in x.aggs(r'mpsc::RecvError::RecvError$|mpmc::RecvError|sync::mpsc::RecvError'):
        if x.home(nid) == g.root_inst:
            ends.add(nid)
    for (nid, si, rv) in x.aggs(r'futures::Async::Ready$|poll::Async::Ready$'):
        e = x.agg_expr(nid, si)
        v = g.strip(e[4][0]) if e[4] else None
        if v is not None and v[0] == 'agg' and v[2].endswith('Option::None'):
            ends.add(nid)
    ctx.floor('P6b', len(ends), 1, 'end-of-stream value constructed in %s' % rsub)
    for n in sorted(ends):
        okd = x.dom(x.expand_sites(disc), n)
        ctx.add('P6b', 'T-MAP', root, okd, 'the end of the stream is reported only after try reported Disconnected' if okd else
                'end-of-stream value at %s reachable without a Disconnected result (Empty would end the stream)' % g.where(n), flavour=fl,
                where=g.where(n), sub='%s|end.bb%d' % (rsub, g.nodes[n].bb))
    # Disconnected leads to the end value (not to waiting)
    blockers = set(waits) | set(futw)
    for d in sorted(disc):
        bad = x.reach_from(d, blocked=ends) & (set(g.exits) | blockers)
        ctx.add('P6b', 'T-MUST', root, not bad, 'Disconnected leads only to the end-of-stream value' if not bad else
                'after Disconnected the operation can wait or return something else', flavour=fl, where=g.where(d),
                sub='%s|disc.i%d.bb%d' % (rsub, g.nodes[d].inst, g.nodes[d].bb))
    # Empty leads to a wait and, after waking, to a retry (or NotReady once parked)
    notready = {nid for (nid, si, rv) in x.aggs(r'Async::NotReady$') if x.home(nid) == g.root_inst}
    for e_ in sorted(empt):
        bad = x.reach_from(e_, blocked=blockers) & set(g.exits)
        ctx.add('P6b', 'T-MUST', root, not bad, 'Empty leads to the waiter, never directly to a return' if not bad else
                'after Empty the blocking operation can return without waiting', flavour=fl, where=g.where(e_),
                sub='%s|empty.i%d.bb%d' % (rsub, g.nodes[e_].inst, g.nodes[e_].bb))
    for w in waits:
        bad = x.reach_from(w, blocked=tagloads) & set(g.exits)
        ctx.add('P6b', 'T-MUST', root, not bad, 'after waking, the receive is retried' if not bad else 'after waking, the operation can return without retrying',
                flavour=fl, where=g.where(w), sub='%s|retry' % rsub)
    # c/d: what the waiter is given
    calls = [(w, g.call_args(w)[1:]) for w in waits]
    for c in futw:
        inst = g.nodes[c].call['inlined']
        calls.append((c, [g.ev_local(inst, 2), g.ev_local(inst, 3), g.ev_local(inst, 4)]))
    for (w, a) in calls:
        if len(a) < 3:
            continue
        seq, at, wc = a[0], a[1], a[2]
        ps = g.locpaths(at)
        okat = any(p.endswith('QueueEntry.wraps') for p in ps) and all(p.endswith('QueueEntry.wraps') or 'null' in p for p in ps)
        okwc = all(p.endswith('MultiQueue.writers') for p in g.locpaths(wc)) and bool(g.locpaths(wc))
        ctx.add('P6c', 'T-FLOW', root, okat and okwc, 'the waiter is given the examined slot tag and the queue\'s writer count' if okat and okwc else
                'waiter arguments: tag cell=%s writers=%s' % (sorted(ps), sorted(g.locpaths(wc))), flavour=fl, where=g.where(w), sub='%s|args' % rsub)
        seqsrc = {s.nid for s in x.loads_in(seq)}
        okseq = bool(seqsrc) and seqsrc <= POSOBS
        ctx.add('P6c', 'T-FLOW', root, okseq, 'the awaited sequence number is an observation of this stream\'s position', flavour=fl, where=g.where(w), sub='%s|seq' % rsub)
        if shared:
            idx = index_sources(x, at) or []
            idxs = {s.nid for s in idx}
            blockers_ = set(waits) | set(futw)
            late = [s_ for s_ in sorted(seqsrc) if s_ not in idxs and any(x.reaches(i, s_, blocked=blockers_) for i in idxs)]
            # ... and it is re-observed in every iteration: a wait with a position that went stale while the
            # loop kept trying is "ready" at once every time (the call spins instead of sleeping / returning NotReady)
            stale_loop = x.reaches(w, w, blocked=seqsrc)
            if stale_loop:
                late.append(w)
            okd = bool(seqsrc) and bool(idxs) and not late
            ctx.add('P6d', 'T-FLOW', root, okd,
                    'the sequence number handed to the waiter is observed no later than the position that indexed the examined slot (so it can never be ahead of the slot)' if okd else
                    ('the loop waits again without re-observing the stream position: after a sibling consumer advanced the stream the stale sequence number makes every wait return "ready" at once, so the call spins instead of sleeping / returning NotReady'
                     if stale_loop else
                     'the waiter gets a sequence number re-loaded (%s) after the attempt that chose the slot: when a sibling consumer advanced the stream in between, the sleeper waits on (p+1, slot(p)) and only wakes when the ring wraps'
                     % ', '.join(x.describe(s) for s in late)), flavour=fl, where=g.where(w), sub='%s|pair' % rsub)


def _p7(ctx):
    F = ctx.F
    wi = F.wait_impls
    if len(wi) < 4:
        raise CheckError('anchor: expected >= 4 impl Wait, found %s' % sorted(wi))
    for adt, methods in sorted(wi.items()):
        for m in ('wait', 'notify', 'needs_notify'):
            if m not in methods:
                raise CheckError('anchor: impl Wait for %s lacks %s' % (adt, m))
        gw = ctx.graph(methods['wait'])
        gn = ctx.graph(methods['notify'])
        gq = ctx.graph(methods['needs_notify'])
        xw, xn = gw.x, gn.x
        blocks = xw.ext_calls(BLOCKING_RE)
        nn = gw.strip(gq.ev_local(gq.root_inst, 0))
        nn_true = nn[0] == 'c' and str(nn[1]) == '1'
        nn_false = nn[0] == 'c' and str(nn[1]) == '0'
        # P7e first: does wait() just panic?
        panics = xw.ext_calls(PANIC_RE)
        always_panics = bool(panics) and not (set(gw.exits) & gw.live())
        if blocks:
            wakes_all = xn.ext_calls(r'Condvar(::<.*>)?::notify_all$')
            wakes_one = xn.ext_calls(r'Condvar(::<.*>)?::notify_one$')
            ok = nn_true and bool(wakes_all) and not wakes_one and all(xn.must_entry(w) if hasattr(xn, 'must_entry') else True for w in wakes_all)
            ok = ok and not (xn.reachable_entry(blocked=set(wakes_all)) & set(gn.exits))
            ctx.add('P7a', 'T-SIB', methods['wait'], ok, '%s blocks on a primitive: needs_notify()==true and notify() wakes all sleepers on every path' % adt if ok else
                    '%s::wait can block on a primitive but needs_notify=%s / notify does not wake every sleeper (notify_all on every path=%s, notify_one=%s)'
                    % (adt, nn[1] if nn[0] == 'c' else '?', bool(wakes_all), bool(wakes_one)), sub=adt)
            # P7b: lock -> re-check -> wait in one lock region; notify under the same lock
            for cw in blocks:
                args = gw.call_args(cw)
                guard_calls = xw.calls_in(args[1], deep=False) if len(args) > 1 else set()
                locks = [n for n in xw.ext_calls(LOCK_RE)]
                mylocks = [l for l in locks if l in guard_calls] or locks
                lockfield = None
                for l in mylocks:
                    for p in gw.locpaths(gw.call_args(l)[0]):
                        lockfield = p.split('/')[-1]
                okheld = held_at(gw, xw, mylocks, cw)
                # the condition is re-checked between lock and sleep: loads of the awaited cell
                def loads_of(pi):
                    return {a.nid for a in xw.atoms.values() if a.op == 'load' and
                            any(s_[0] == 'param' and s_[1] == gw.root_inst and s_[2] == pi for arg in gw.call_args(a.nid)[:1] for s_ in gw.deep_walk(arg))}
                at_loads, wc_loads = loads_of(3), loads_of(4)
                cond_loads = at_loads | wc_loads
                # BOTH wake-up reasons are re-evaluated under the lock: a value published into the awaited
                # slot and the writer count reaching zero (the last sender's drop notifies only once)
                okchk = bool(at_loads) and bool(wc_loads) and all(cw not in xw.reach_from(l, blocked=at_loads) and cw not in xw.reach_from(l, blocked=wc_loads) for l in mylocks)
                ctx.add('P7b', 'T-DOM', methods['wait'], okheld and okchk,
                        '%s: every sleep is inside the lock region and after a re-check of the awaited cell under the lock' % adt if okheld and okchk else
                        '%s::wait: sleep at %s held-under-lock=%s, awaited slot AND writer count both re-checked under the lock=%s (lost wake-up window: the notification of a publish / of the last sender\'s drop can fall between the check and the sleep)' % (adt, gw.where(cw), okheld, okchk),
                        where=gw.where(cw), sub='%s|sleep' % adt)
                # notify side
                nlocks = [n for n in xn.ext_calls(LOCK_RE) if lockfield and any(p.endswith(lockfield) for p in gn.locpaths(gn.call_args(n)[0]))]
                okn = bool(nlocks) and all(held_at(gn, xn, nlocks, w) for w in wakes_all)
                ctx.add('P7b', 'T-DOM', methods['notify'], okn, '%s::notify wakes while holding the sleepers\' lock' % adt if okn else
                        '%s::notify does not hold the lock the sleeper re-checks under' % adt, sub='%s|notify' % adt)
        else:
            spins = not always_panics
            ctx.add('P7a', 'T-SIB', methods['wait'], True, '%s::wait %s; needs_notify()=%s' % (adt, 'only spins/yields on the awaited cell' if spins else 'never returns normally (see P7e)', nn[1] if nn[0] == 'c' else '?'), sub=adt)
            if spins:
                # a spinning waiter must look at the awaited cell in its loop
                cond_loads = [a for a in xw.atoms.values() if a.op == 'load']
                ctx.add('P7a', 'T-LOOP', methods['wait'], bool(cond_loads), '%s::wait re-reads the awaited cell while spinning' % adt, sub=adt + '|spin')
        if not always_panics:
            # P7i: no loop of wait() can go round without re-reading the awaited cell (bounded `for` loops end by
            # themselves: the Some-edge of their iterator counts as a cut)
            from rules_misc import progress_edges
            prog, kinds = progress_edges(gw, xw)
            cuts = {e_ for e_ in prog if kinds.get(e_) == 'iterator' or kinds.get(xw.rep(e_)) == 'iterator'}
            at_l = xw._exp({a.nid for a in xw.atoms.values() if a.op == 'load' and
                            any(s_[0] == 'param' and s_[1] == gw.root_inst and s_[2] == 3 for arg in gw.call_args(a.nid)[:1] for s_ in gw.deep_walk(arg))})
            blocked = cuts | at_l
            stuck = sorted(n for n in gw.live() if n not in blocked and n in gw.reachable(gw.nodes[n].succs, blocked))
            w_ = [gw.where(n) for n in stuck if gw.nodes[n].kind == 'block'][:4]
            # ... and the writer count: the end of the stream must be noticed by a waiter too
            wc_l = xw._exp({a.nid for a in xw.atoms.values() if a.op == 'load' and
                            any(s_[0] == 'param' and s_[1] == gw.root_inst and s_[2] == 4 for arg in gw.call_args(a.nid)[:1] for s_ in gw.deep_walk(arg))})
            blocked_w = cuts | wc_l
            stuck_w = sorted(n for n in gw.live() if n not in blocked_w and n in gw.reachable(gw.nodes[n].succs, blocked_w))
            ww_ = [gw.where(n) for n in stuck_w if gw.nodes[n].kind == 'block'][:4]
            ctx.add('P7i', 'T-LOOP', methods['wait'], not stuck_w,
                    '%s::wait: every loop re-reads the writer count on each iteration' % adt if not stuck_w else
                    '%s::wait has a loop that never looks at the writer count: a consumer waiting there does not notice that the last sender is gone and never reports the end of the stream; cycle through %s' % (adt, ww_),
                    where=ww_[0] if ww_ else None, witness=ww_, sub=adt + '|loop-writers')
            ctx.add('P7i', 'T-LOOP', methods['wait'], not stuck,
                    '%s::wait: every loop re-reads the awaited cell on each iteration (or is a bounded spin)' % adt if not stuck else
                    '%s::wait has a loop that can go round forever without re-evaluating the wake-up condition (e.g. when an inner spin loop runs zero times): '
                    'a waiting consumer never notices the value it waits for; cycle through %s' % (adt, w_), where=w_[0] if w_ else None, witness=w_, sub=adt + '|loop')
        ctx.add('P7e', 'T-REACH', methods['wait'], True, '%s::wait: explicit panic reachable=%s, returns normally=%s' % (adt, bool(panics), not always_panics), sub=adt + '|info')
        if not always_panics:
            _roles(ctx, gw, methods['wait'], adt, 2, 3, 4)
        wi[adt]['_always_panics'] = always_panics
    # P7e: the waiter installed by the futures constructors must not be one whose wait() panics, if a futures root reaches dyn Wait::wait
    installed = set()
    for name in F.fns:
        if re.search(r'multiqueue::futures_multiqueue(_with)?$', name):
            g = ctx.graph(name, 'BCast')
            for n in g.nodes:
                if n.id not in g.live() or n.kind != 'block':
                    continue
                for s in n.stmts:
                    if s['k'] == 'assign' and s['rv']['k'] == 'cast' and 'Unsize' in s['rv']['ck'] and 'dyn wait::Wait' in s['rv']['to']['s']:
                        m = re.search(r'Arc<([\w:]+)', s['rv']['from']['s'])
                        if m:
                            installed.add(short(m.group(1)))
    ctx.floor('P7e', len(installed), 1, 'waiter type installed by the futures constructors (Unsize cast to Arc<dyn Wait>)')
    fut_roots = [k for k in F.fns if re.search(r'^multiqueue::FutInner(Uni)?Recv::<.*>::(recv|try_recv)$', k) or
                 re.search(r'^<&?multiqueue::FutInner(Uni)?Recv<.*> as .*futures::Stream>::poll$', k) or
                 re.search(r'^<&?multiqueue::FutInnerSend<.*> as .*futures::Sink>::(start_send|poll_complete)$', k)]
    ctx.floor('P7e', len(fut_roots), 8, 'futures roots')
    for r in sorted(fut_roots):
        g = ctx.graph(r, 'MPMC')
        reaches_wait = g.x.ext_calls(r'wait::Wait::wait$')
        bad = [w for w in installed if wi.get(w, {}).get('_always_panics')]
        ok = not (reaches_wait and bad)
        ctx.add('P7e', 'T-REACH', r, ok, 'does not reach a panicking waiter' if ok else
                '%s reaches dyn Wait::wait and the waiter installed by the futures constructors (%s) has a wait() that unconditionally panics' % (short_fn(r), ','.join(bad)),
                where=g.where(reaches_wait[0]) if reaches_wait else None, sub='reach')
    # P7c: FutWait::park / notify_all / notify
    # (read off the graph of fut_wait, which contains the parking code whether or not it is a function of its own)
    park = ctx.fn1(r'^multiqueue::FutWait::fut_wait$')
    g = ctx.graph(park)
    x = g.x
    pushes = x.ext_calls(r'VecDeque(::<.*>)?::push_(back|front)$')
    locks = locks_on(g, x, 'FutWait.parked')
    ctx.floor('P7c', len(pushes), 1, 'task registration in FutWait::park')
    cond_loads = {a.nid for a in x.atoms.values() if a.op == 'load'}
    for p in pushes:
        okh = held_at(g, x, locks, p)
        okc = bool(cond_loads) and all(p not in x.reach_from(l, blocked=cond_loads) for l in locks)
        cur = [c for c in x.ext_calls(r'task::current$')]
        okt = any(c in x.calls_in(g.call_args(p)[1]) for c in cur)
        ctx.add('P7c', 'T-DOM', park, okh and okc and okt, 'park: lock -> re-check -> register current task, in one lock region' if okh and okc and okt else
                'FutWait::park: registration under the list lock=%s, condition re-checked under the lock=%s, registers the current task=%s' % (okh, okc, okt),
                where=g.where(p), sub='park')
    # the waiter the futures constructors install parks tasks in that list: the senders only call notify() when the
    # waiter says it needs it, so needs_notify() must be true for it (own or provided method body alike)
    for w in sorted(installed):
        meths = wi.get(w) or {}
        if 'needs_notify' not in meths:
            continue
        gq = ctx.graph(meths['needs_notify'])
        nn = gq.strip(gq.ev_local(gq.root_inst, 0))
        oknn = nn[0] == 'c' and str(nn[1]) == '1'
        ctx.add('P7c', 'T-SIB', meths['needs_notify'], oknn, '%s (installed by the futures constructors, parks tasks) has needs_notify()==true' % w if oknn else
                '%s parks tasks until notify() but its needs_notify() is not the constant true: a plain try_send never wakes a parked Stream task' % w,
                sub=w + '|needs-notify')
    # fut_wait returns true only after park registered the task (P7d)
    fw = ctx.fn1(r'^multiqueue::FutWait::fut_wait$')
    g = ctx.graph(fw)
    x = g.x
    pushes = set(x.ext_calls(r'VecDeque(::<.*>)?::push_(back|front)$'))
    # `_0 = true` written in fut_wait itself: the place where it reports "parked"
    trues = []
    for n in g.nodes:
        if n.id in g.live() and n.kind == 'block' and n.inst == g.root_inst:
            for s_ in n.stmts:
                if s_['k'] == 'assign' and s_['pl']['l'] == 0 and not s_['pl']['p'] and s_['rv']['k'] == 'use' and s_['rv']['op']['k'] == 'const' and str(s_['rv']['op'].get('v')) == '1':
                    trues.append(x.rep(n.id))
    trues = sorted(set(trues))
    if not trues:
        # the result is not a boolean constant written here (an enum, a flag, a helper's result): the obligation is decided
        # where it matters, at the poll level (P11c: NotReady only after the task was registered)
        ctx.add('P7d', 'T-DOM', fw, True, 'fut_wait\'s result is not a boolean constant: "parked only after registration" is decided at the poll level (P11c)', sub='true.delegated')
    for t in trues:
        ok = x.dom(x.expand_sites(pushes), t)
        ctx.add('P7d', 'T-DOM', fw, ok, 'fut_wait reports "parked" only after the task was registered' if ok else
                'fut_wait can return true (caller returns NotReady) without having registered the task', where=g.where(t), sub='true.bb%d' % g.nodes[t].bb)
    # P7j: "not parked, try again" is only answered after the wake-up condition was actually evaluated: every origin
    # of a `false` result lies behind a read of the awaited cell (a spin phase that runs zero times must not count
    # as "the value is there")
    g._fwd_calls = set()
    _orig, _all = g._const_origins(g.root_inst, 0, set())
    at_l = {a.nid for a in x.atoms.values() if a.op == 'load' and
            any(s_[0] == 'param' and s_[1] == g.root_inst and s_[2] == 3 for arg in g.call_args(a.nid)[:1] for s_ in g.deep_walk(arg))}
    falses = sorted({x.rep(n_) for (n_, v_) in _orig if str(v_) == '0' and any(m_ in g.live() for m_ in g.members(n_))})
    # `it.any(|_| check(..))` answering true means the callback ran (and saw the condition): the true edge of a test of
    # such a result counts like the reads inside the callback
    any_true = set()
    for n_ in x.ext_calls(r'Iterator::any$'):
        cis = set(g.nodes[n_].call.get('closure_insts') or ())
        inside = [l_ for l_ in at_l if any(g.nodes[m_].inst in cis or x.within_inst(m_, cis) for m_ in g.members(l_))]
        if inside:
            _z, nz_, _h = x.zero_tests(lambda e_: e_[0] == 'call' and x.rep(e_[1]) == n_)
            any_true |= set(nz_)
    at_l = set(at_l) | any_true
    # converse of P7d: once the task is registered the answer is "parked" - a `false` after the registration makes poll try
    # again at once: it registers the task over and over and never returns NotReady while the queue stays empty
    if falses and g.insts[g.root_inst].body['locals'][0]['ty'].get('k') == 'bool':
        late = [t for t in falses if any(x.reaches(p_, m_) for p_ in pushes for m_ in g.members(t) if m_ in g.live())]
        ctx.add('P7d', 'T-MUST', fw, not late, 'after registering the task fut_wait always answers "parked"' if not late else
                'fut_wait can answer "not parked, retry" after it has registered the task: poll loops inside the call (registering the task again each time) instead of returning NotReady',
                where=g.where(late[0]) if late else None, sub='parked-after-push')
    if not falses or (g.insts[g.root_inst].body['locals'][0]['ty'].get('k') != 'bool'):
        ctx.add('P7j', 'T-DOM', fw, True, 'fut_wait\'s result is not a boolean with constant origins: nothing to decide here', sub='retry.delegated')
    else:
        for t in falses:
            ok = bool(at_l) and x.dom(at_l, t)
            ctx.add('P7j', 'T-DOM', fw, ok, 'fut_wait answers "retry" only after looking at the awaited cell' if ok else
                    'fut_wait can answer "not parked, retry" without ever evaluating the wake-up condition (e.g. when the spin phases run zero times): poll then loops inside the call instead of returning NotReady',
                    where=g.where(t), sub='retry.%s.bb%s' % (short_fn(g.nodes[t].fn).split('::')[-1], g.nodes[t].bb))
    # (park / spin are checked as functions of their own when they exist; their code is part of fut_wait's graph anyway)
    for nm in (r'^multiqueue::FutWait::fut_wait$', r'^multiqueue::FutWait::park$', r'^multiqueue::FutWait::spin$'):
        for f_ in ctx.F.find_fns(nm):
            _roles(ctx, ctx.graph(f_), f_, short_fn(f_), 2, 3, 4)
    # no peer-blocking inside fut_wait other than the bounded sleep
    for nm in (r'^multiqueue::FutWait::notify_all$', r'^<multiqueue::FutWait as wait::Wait>::notify$'):
        fn = ctx.fn1(nm)
        g = ctx.graph(fn)
        x = g.x
        locks = locks_on(g, x, 'FutWait.parked')
        drains = x.ext_calls(r'VecDeque(::<.*>)?::drain$')
        notifies = x.ext_calls(r'task::Task::notify$')
        okl = bool(drains) and all(held_at(g, x, locks, d) for d in drains)
        # full drain: the drain range is `..` (RangeFull)
        full = all('RangeFull' in (g.nodes[d].term['args'][1].get('ty') or (g.nodes[d].term['args'][1].get('pl') or {}).get('ty') or '') for d in drains)
        # every non-empty path drains: exits reachable without a drain only via a "len == 0" test
        trunc = [n_ for n_ in x.ext_calls(r'Iterator::(take|skip|step_by|filter|take_while|skip_while|nth|last|find|map_while|peekable)$')
                 if set(drains) & x.calls_in(g.call_args(n_)[0])]
        full = full and not trunc
        ok = okl and full and bool(notifies)
        ctx.add('P7c', 'T-DOM', fn, ok, 'notify: lock the list, drain every parked task, notify each' if ok else
                '%s: drain under the list lock=%s, every drained task is notified (full range, no truncating adaptor)=%s, notifies tasks=%s' % (short_fn(fn), okl, full, bool(notifies)), sub=short_fn(fn))
        skip = x.reachable_entry(blocked=set(drains)) & set(g.exits)
        if skip:
            # allowed only behind an emptiness test of the list: the edges on which the list is known to be empty
            def _len(e_):
                return e_[0] == 'call' and bool(re.search(r'VecDeque(::<.*>)?::len$', g.call_name(e_[1]) or ''))
            empty = set()
            for t_ in x.tests(('Eq',)):
                if (_len(t_.a) and is_const(t_.b, 0)) or (_len(t_.b) and is_const(t_.a, 0)):
                    empty.update(t_.true)
            for t_ in x.tests(('Lt',)):
                if is_const(t_.a, 0) and _len(t_.b):       # 0 < len
                    empty.update(t_.false)
            for t_ in x.tests(('Le',)):
                if is_const(t_.a, 1) and _len(t_.b):       # 1 <= len
                    empty.update(t_.false)
                if is_const(t_.a, 0) and _len(t_.b):       # 0 <= len: always true, the other side is never taken
                    empty.update(t_.false)
                if _len(t_.a) and is_const(t_.b, 0):       # len <= 0
                    empty.update(t_.true)
            for sid in x.switches():
                e = g.strip(g.switch_expr(sid))
                if e[0] == 'call' and re.search(r'VecDeque(::<.*>)?::is_empty$', g.call_name(e[1]) or ''):
                    empty.update(x.switch_edges(sid, 'nonzero'))
            okE = bool(empty) and not (x.reachable_entry(blocked=set(drains) | empty) & set(g.exits))
            ctx.add('P7c', 'T-GUARD', fn, okE, 'the drain is skipped only when the list is empty' if okE else
                    '%s can return without draining a non-empty list: the tasks parked in it are never woken' % short_fn(fn), sub=short_fn(fn) + '|skip')
        # every task taken out of a list is notified: in a loop over a drain (of the list itself or of the buffer the tasks were
        # moved to) each element that `next()` hands out reaches Task::notify before the next one is fetched
        alld = set(x.ext_calls(r'::drain$|IntoIterator::into_iter$'))
        nloops = 0
        for N in x.ext_calls(r'Iterator::next$'):
            if not (alld & x.calls_in(g.call_args(N)[0])):
                continue
            some = set()
            for sid in x.switches():
                e = g.strip(g.switch_expr(sid))
                if e[0] == 'discr' and g.strip(e[1])[0] == 'call' and x.rep(g.strip(e[1])[1]) == x.rep(N):
                    some.update(x.switch_edges(sid, '1'))
            nloops += 1
            okn = bool(some) and bool(notifies) and all(x.must(e_, set(notifies), exits=set(g.exits) | set(x.same_site(N))) for e_ in some)
            ctx.add('P7c', 'T-MUST', fn, okn, 'every task handed out by the drain loop is notified' if okn else
                    '%s takes parked tasks out of the list without notifying each of them (a drained task that is not notified is lost: its future is never polled again)' % short_fn(fn),
                    where=g.where(N), sub=short_fn(fn) + '|each.bb%d' % g.nodes[N].bb)
        # the same loop written as `drain(..).for_each(|task| task.notify())`
        for N in x.ext_calls(r'Iterator::for_each$'):
            if not (alld & x.calls_in(g.call_args(N)[0])):
                continue
            cis = [ci_ for m_ in g.members(N) for ci_ in ((g.nodes[m_].call or {}).get('closure_insts') or ())]
            nloops += 1
            nset = {x.site(n_) for n_ in notifies}
            okn = bool(cis) and bool(notifies) and all(x.site(g.insts[ci_].entry) in nset or x.must(g.insts[ci_].entry, set(notifies), exits=set(g.exits) | set(g.insts[ci_].rets)) for ci_ in cis)
            ctx.add('P7c', 'T-MUST', fn, okn, 'every task handed out by the drain loop is notified' if okn else
                    '%s takes parked tasks out of the list without notifying each of them (a drained task that is not notified is lost: its future is never polled again)' % short_fn(fn),
                    where=g.where(N), sub=short_fn(fn) + '|each.bb%d' % g.nodes[N].bb)
        ctx.add('P7c', 'T-MUST', fn, nloops > 0, 'the drained tasks are walked in a loop' if nloops else
                '%s has no loop over the drained tasks' % short_fn(fn), sub=short_fn(fn) + '|loops')
    # send_or_park: last attempt and registration in one lock region (evaluated where the closure is known)
    ss = ctx.fn1(r'^<&multiqueue::FutInnerSend<.*> as .*futures::Sink>::start_send$')
    for fl in FLAVOURS:
        g = ctx.graph(ss, fl)
        x = g.x
        pushes = x.ext_calls(r'VecDeque(::<.*>)?::push_(back|front)$')
        locks = locks_on(g, x, 'FutWait.parked')
        ctx.floor('P7c', len(pushes), 1, 'task registration in send_or_park')
        attempts = {a.nid for a in x.atoms_on('MultiQueue.head/', ops={'load'})}
        for p in pushes:
            okh = held_at(g, x, locks, p)
            oka = bool(attempts) and all(p not in x.reach_from(l, blocked=attempts) for l in locks)
            # registered only when that attempt said Full
            fulls = {nid for (nid, si, rv) in x.aggs(r'TrySendError::Full$') if any(x.reaches(l, nid) for l in locks)}
            okf = x.dom(x.expand_sites(fulls), p) if fulls else False
            ctx.add('P7c', 'T-DOM', ss, okh and oka and okf, 'send_or_park: the last send attempt and the task registration share one lock region; registration only after Full' if okh and oka and okf else
                    'send_or_park: registration under the lock=%s, send attempt inside the lock region=%s, only after Full=%s' % (okh, oka, okf), flavour=fl, where=g.where(p), sub='send_or_park')
        # .. and the converse: a Full answered by the attempt under the lock always leaves the task registered (a
        # registration that is skipped - "this handle parked already" - returns NotReady to a task nobody will wake)
        fulls = {nid for (nid, si, rv) in x.aggs(r'TrySendError::Full$') if any(x.reaches(l, nid) for l in locks)}
        pset = set(pushes)
        # (the Full the function builds for its own answer *behind* the registration is not an attempt's answer)
        attempts_full = [f_ for f_ in x.expand_sites(fulls) if not any(x.reaches(p_, f_) for p_ in pset)]
        okm = bool(attempts_full) and all(x.must(f_, pset) for f_ in attempts_full)
        ctx.add('P7c', 'T-MUST', ss, okm, 'send_or_park: every Full of the locked attempt registers the task' if okm else
                'send_or_park can answer Full / NotReady after the attempt under the producer-list lock without registering the current task: whoever polled is never woken when room is made',
                flavour=fl, sub='send_or_park-registers')


def _roles(ctx, g, fn, label, p_seq, p_at, p_wc):
    """P7f: the wake-up condition uses its arguments in their roles: the writer count is compared
    with zero, the awaited tag cell is compared with the sequence number"""
    x = g.x

    def from_param(e, pi):
        return any(s[0] == 'param' and s[1] == g.root_inst and s[2] == pi for s in g.deep_walk(e))

    # every comparison the condition makes, in normalised form (rel in Eq / Lt, operands stripped), whatever its
    # syntax: `a == b`, `a != b`, `match a { b => .. }`, a boolean temporary that joins several comparisons
    comparisons = [('Eq', t_.a, t_.b) for t_ in x.tests(('Eq',))] + [('Lt', t_.a, t_.b) for t_ in x.tests(('Lt',))]
    for sid in x.switches():
        e = g.strip(g.switch_expr(sid))
        if e[0] == 'phi':
            for alt in e[1]:
                nr_ = norm_rel(g, alt)
                if nr_:
                    comparisons.append(('Lt' if nr_[0] in ('Lt', 'Le') else 'Eq', nr_[1], nr_[2]))
    # a condition handed to an iterator adaptor (`(0..n).any(|_| check(..))`) is never switched on in this graph: its
    # comparisons are read off the value the callback returns
    for n_ in g.nodes:
        if n_.id in g.live() and n_.call is not None and n_.call.get('closure_insts'):
            for ci in n_.call['closure_insts']:
                r_ = g.strip(g.ev_local(ci, 0))
                for alt in (r_[1] if r_[0] == 'phi' else (r_,)):
                    nr_ = norm_rel(g, alt)
                    if nr_:
                        comparisons.append(('Lt' if nr_[0] in ('Lt', 'Le') else 'Eq', nr_[1], nr_[2]))
    wc0 = False
    seq_at = False
    bad = []
    for (rel, ca, cb) in comparisons:
        for (p, q) in ((ca, cb), (cb, ca)):
            lds = x.loads_in(p)
            if not lds:
                continue
            arg0s = [g.call_args(l.nid)[0] for l in lds]
            if q[0] == 'c' and str(q[1]) == '0' and rel == 'Eq' and p[0] == 'call':
                if all(from_param(z, p_wc) for z in arg0s):
                    wc0 = True
                elif any(from_param(z, p_at) for z in arg0s):
                    bad.append('the awaited tag cell is compared with 0 (role of the writer count)')
            if from_param(q, p_seq):
                if all(from_param(z, p_at) for z in arg0s):
                    seq_at = True
                elif any(from_param(z, p_wc) for z in arg0s):
                    bad.append('the writer count is compared with the sequence number (role of the awaited tag cell)')
    # P7g: a never-written slot (tag bit still set) is not mistaken for a published one
    tagbit = False
    gi = ctx.graph(ctx.fn1(r'^countedindex::is_tagged$'))
    ri = gi.strip(gi.ev_local(gi.root_inst, 0))
    ind = None
    from rules_extra import _bit_test_const
    ind = _bit_test_const(gi, ri)
    for sid in x.switches():
        e = g.strip(g.switch_expr(sid))
        for s_ in g.walk(e):
            if s_[0] == 'bin' and s_[1] == 'BitAnd':
                a_, b_ = g.strip(s_[2]), g.strip(s_[3])
                for (p, q) in ((a_, b_), (b_, a_)):
                    if q[0] == 'c' and str(q[1]) == ind and p[0] == 'call' and x.rep(p[1]) in x.atoms and \
                            all(from_param(z, p_at) for z in g.call_args(p[1])[:1]):
                        tagbit = True
    ctx.add('P7g', 'T-GUARD', fn, tagbit, '%s: the wake-up condition tests the tag bit of the awaited cell (a never-written slot is not "published")' % label if tagbit else
            '%s: the wake-up condition never looks at the tag bit of the awaited cell: the initial tag of a never-written slot (all ones) counts as "ahead of" every sequence number, so on a queue whose ring has not wrapped yet the waiter reports ready at once, every time - blocking receives busy-spin and Stream::poll never returns NotReady' % label,
            sub=label + '|tagbit')
    # P7h: the tag may also be AHEAD of the awaited sequence number (a sibling consumer took the value and the
    # slot was republished, or the stream advanced between the position load and the attempt): that must wake too
    ahead = False
    eq = False
    for (rel, ca, cb) in comparisons:
        both = any(from_param(z, p_seq) for z in (ca, cb)) or any(from_param(z, p_seq) for side in (ca, cb) for s_ in g.walk(side) if s_[0] == 'call' for z in g.call_args(s_[1]))
        lds = [l for side in (ca, cb) for l in x.loads_in(side) if all(from_param(z, p_at) for z in g.call_args(l.nid)[:1])]
        if not lds or not both:
            continue
        if rel == 'Eq':
            eq = True
        else:
            ahead = True
    # ... and it is "ahead", not "behind": the distance is (awaited sequence number - tag) in wrapping arithmetic, and the
    # test asks whether that distance is larger than the largest ring (i.e. negative): `past(seq, tag)`, not `past(tag, seq)`
    dirs = []
    for (rel, ca, cb) in comparisons:
        if rel == 'Eq':
            continue
        for (small, big) in ((ca, cb),):
            for s_ in g.walk(big):
                w = None
                if s_[0] == 'call' and re.search(r'wrapping_sub$', g.call_name(s_[1]) or ''):
                    w = g.call_args(s_[1])[:2]
                elif s_[0] == 'bin' and s_[1] in ('Sub', 'SubUnchecked', 'SubWithOverflow'):
                    w = [s_[2], s_[3]]
                if not w or len(w) < 2:
                    continue
                tag_in = [bool([l for l in x.loads_in(z) if all(from_param(y, p_at) for y in g.call_args(l.nid)[:1])]) for z in w]
                seq_in = [from_param(z, p_seq) for z in w]
                if any(tag_in) and any(seq_in):
                    dirs.append(seq_in[0] and not tag_in[0] and tag_in[1] and g.strip(small)[0] == 'c')
    if dirs:
        okdir = all(dirs)
        ctx.add('P7h', 'T-FLOW', fn, okdir, '%s: the "ahead" test measures (awaited number - tag) against the largest ring' % label if okdir else
                '%s: the distance test of the wake-up condition is taken the wrong way round (tag - awaited number, or compared the other way): a slot that still carries the tag of an EARLIER lap counts as "ahead", so the waiter reports ready on an empty stream for ever (poll never returns NotReady, blocking receives spin)' % label,
                sub=label + '|ahead-direction')
    ctx.add('P7h', 'T-FLOW', fn, eq and ahead, '%s: wakes when the tag equals the awaited sequence number or is ahead of it' % label if eq and ahead else
            '%s: the wake-up condition lacks the %s test between the slot tag and the awaited sequence number: on a stream shared by several consumers the tag can skip past the awaited number (sibling took the value, slot republished) and the sleeper never wakes'
            % (label, 'equality' if not eq else '"tag is ahead"'), sub=label + '|ahead')
    ok = wc0 and seq_at and not bad
    ctx.add('P7f', 'T-FLOW', fn, ok, '%s: writers==0 and tag-vs-sequence tests use the arguments in their roles' % label if ok else
            '%s: wake-up condition misuses its arguments (writer count tested against 0=%s, tag cell tested against the sequence=%s; %s)' % (label, wc0, seq_at, '; '.join(sorted(set(bad)))),
            sub=label + '|roles')


def _p8(ctx):
    fn = ctx.fn1(r'^<multiqueue::InnerSend<.*> as std::ops::Drop>::drop$')
    g = ctx.graph(fn)
    x = g.x
    subs = [a for a in x.atoms_on('MultiQueue.writers') if a.op == 'fetch_sub']
    notifies = set(x.ext_calls(r'wait::Wait::notify$'))
    ok1 = len(subs) >= 1 and not (x.reachable_entry(blocked={a.nid for a in subs}) & set(g.exits))
    ctx.add('P8', 'T-MUST', fn, ok1, 'sender drop decrements the writers count on every path' if ok1 else 'Drop for InnerSend does not decrement writers on every path', sub='dec')
    for a in subs:
        okr = bool(a.ords) and has_release(a.ords[0])
        v = g.strip(g.call_args(a.nid)[1])
        ctx.add('O3', 'T-ORD', fn, okr, 'writers decrement is Release or stronger' if okr else 'writers decrement is weaker than Release', where=g.where(a.nid), sub='dec-order')
        ctx.add('W6', 'T-FLOW', fn, v[0] == 'c' and str(v[1]) == '1', 'writers -= 1', where=g.where(a.nid), sub='dec')
    ok2 = bool(notifies) and not (x.reachable_entry(blocked=notifies) & set(g.exits))
    ctx.add('P8', 'T-MUST', fn, ok2, 'sender drop notifies the waiter unconditionally (not behind needs_notify)' if ok2 else
            'Drop for InnerSend can return without calling waiter.notify(): a receiver blocked on the last sender is never woken', sub='notify')
    ok3 = all(x.dom({a.nid for a in subs}, n) for n in notifies)
    ctx.add('P8', 'T-DOM', fn, ok3 and bool(notifies), 'the decrement precedes the notification', sub='order')
    rt = set(x.inlined(r'MemoryManager::remove_token$'))
    ok4 = bool(rt) and not (x.reachable_entry(blocked=rt) & set(g.exits))
    ctx.add('P9e', 'T-PAIR', fn, ok4, 'sender drop removes its reclamation token' if ok4 else 'Drop for InnerSend does not remove its token on every path', sub='send-token')


def _lock_class(g, x, arg):
    """which lock an acquisition takes: the consumer task list, the producer task list, or another mutex of the crate"""
    ps = g.locpaths(arg)
    if any(p_.endswith('FutWait.parked') or '/FutWait.parked' in p_ for p_ in ps):
        if any('.prod_wait' in p_ for p_ in ps):
            return 'producer task list'
        if any('.wait/' in p_ or '.wait' in p_.split('/')[-2:-1] or 'MultiQueue.waiter' in p_ for p_ in ps):
            return 'consumer task list'
        return 'a task list (FutWait.parked)'
    for p_ in ps:
        m = re.search(r'/(\w+\.\w+)$', p_)
        if m:
            return m.group(1)
    return None


def _p7k(ctx):
    """lock order: the locks of the crate are always taken in one order.  The sink makes its last attempt under the
    producer task list lock and a successful attempt notifies the consumers (consumer task list lock): so nothing may
    take the producer list lock (or notify producers) while it holds the consumer list lock - two tasks would wait for
    each other inside poll / start_send for ever"""
    F = ctx.F
    roots = [k for k in F.fns if re.search(r'^multiqueue::FutInner(Uni)?Recv::<.*>::\w+$', k) or
             re.search(r'^<&?multiqueue::FutInner(Uni)?Recv<.*> as .*futures::Stream>::poll$', k) or
             re.search(r'^<&?multiqueue::FutInnerSend<.*> as .*futures::Sink>::(start_send|poll_complete)$', k) or
             re.search(r'^<multiqueue::(FutInner(Uni)?Recv|FutInnerSend|InnerSend|InnerRecv)<.*> as std::ops::Drop>::drop$', k) or
             re.search(r'^multiqueue::FutInnerSend::<.*>::\w+$', k) or
             re.search(r'^memory::MemoryManager::(free|get_token|remove_token)$', k) or
             re.search(r'^<wait::\w+ as wait::Wait>::(wait|notify)$', k)]
    roots = [r for r in roots if not F.fns[r].get('from_expansion') and not (r in F.fresh and ctx.revcg().get(r))]
    edges = {}
    for r in sorted(roots):
        g = ctx.graph(r, 'BCast')
        x = g.x
        locks = x.ext_calls(LOCK_RE)
        if not locks:
            continue
        acq = [(n, _lock_class(g, x, g.call_args(n)[0])) for n in locks]
        # a notify through the queue's dyn waiter takes the consumer list lock (the futures constructors install FutWait)
        for n in x.ext_calls(r'wait::Wait::notify$'):
            acq.append((n, 'consumer task list'))
        for L in locks:
            c1 = _lock_class(g, x, g.call_args(L)[0])
            if c1 is None:
                continue
            held = x.reach_from(L, blocked=guard_drops(g, x, L))
            for (n, c2) in acq:
                if c2 is None or x.rep(n) == x.rep(L) or n not in held:
                    continue
                if c1 == c2 and x.reaches(n, L) and x.reaches(L, n) and n in locks:
                    continue   # the same acquisition in a loop
                edges.setdefault((c1, c2), []).append((r, g.where(n)))
    # cycles in the order graph (classes are few: plain DFS)
    succ = {}
    for (a, b) in edges:
        succ.setdefault(a, set()).add(b)
    bad = []
    for (a, b) in sorted(edges):
        if a == b:
            bad.append((a, b))
            continue
        seen, st = set(), [b]
        while st:
            c = st.pop()
            if c == a:
                bad.append((a, b))
                break
            if c in seen:
                continue
            seen.add(c)
            st.extend(succ.get(c, ()))
    if not edges:
        ctx.add('P7k', 'T-ORD', ctx.fn1(r'^multiqueue::FutWait::fut_wait$'), True, 'no lock of the crate is taken while another one is held', sub='none')
    for (a, b) in sorted(edges):
        ok = (a, b) not in bad
        r, where = edges[(a, b)][0]
        ctx.add('P7k', 'T-ORD', r, ok, 'lock order: %s is taken while %s is held, never the other way round' % (b, a) if ok else
                '%s takes the lock of the %s while holding the %s, and elsewhere the order is the opposite (%s): two threads can block each other for ever inside these calls'
                % (short_fn(r), b, a, '; '.join('%s at %s' % (short_fn(r2), w2) for (a2, b2) in sorted(bad) if (a2, b2) != (a, b) for (r2, w2) in edges[(a2, b2)][:1])),
                where=where, sub='%s->%s' % (a, b))
