"""Self-test corpus (DESIGN.md section 10): edits applied to a scratch copy of the current tree.
kind 'violating': must make one of `expect` fail (new failure relative to the unchanged tree);
kind 'refactor' : behaviour-preserving, must stay silent."""

MQ = 'src/multiqueue.rs'
RC = 'src/read_cursor.rs'
MEM = 'src/memory.rs'
WAIT = 'src/wait.rs'


def V(id, prop, expect, edits, kind='violating', note=''):
    return {'id': id, 'property': prop, 'expect': expect, 'edits': edits, 'kind': kind, 'note': note}


def E(file, old, new, count=1):
    return {'file': file, 'old': old, 'new': new, 'count': count}


VARIANTS = [
    V('send-multi-commit-direct', 'C01', ['P1d', 'W1', 'P2a'], [E(MQ, """                match transaction.commit(1, Relaxed) {
                    Some(new_transaction) => transaction = new_transaction,
                    None => {""", """                match { transaction.commit_direct(1, Relaxed); None::<crate::countedindex::Transaction> } {
                    Some(new_transaction) => transaction = new_transaction,
                    None => {""")]),
    V('send-tag-before-write', 'C01', ['P1e'], [E(MQ, """            ptr::write(&mut write_cell.val, val);
            write_cell.wraps.store(wrap_valid_tag, Release);
            Ok(())""", """            write_cell.wraps.store(wrap_valid_tag, Release);
            ptr::write(&mut write_cell.val, val);
            Ok(())""")]),
    V('send-tag-relaxed', 'C01', ['O1'], [E(MQ, """                        write_cell.wraps.store(wrap_valid_tag, Release);
                        return Ok(());""", """                        write_cell.wraps.store(wrap_valid_tag, Relaxed);
                        return Ok(());""")]),
    V('send-no-checkref', 'C03', ['P1c'], [E(MQ, """            if !RW::check_ref(&ref_cell.refcnt) {
                return Err(TrySendError::Full(val));
            }
            fence(Acquire);
            transaction.commit_direct(1, Relaxed);""", """            let _ = &ref_cell.refcnt;
            fence(Acquire);
            transaction.commit_direct(1, Relaxed);""")]),
    V('send-single-stale-full', 'C03', ['P1b'], [E(MQ, """            if transaction.matches_previous(tail_cache) {
                let new_tail = self.reload_tail_single(wrap_valid_tag);
                if transaction.matches_previous(new_tail) {
                    return Err(TrySendError::Full(val));
                }
            }""", """            if transaction.matches_previous(tail_cache) {
                return Err(TrySendError::Full(val));
            }""")]),
    V('send-no-fullness-check', 'C03', ['P1a'], [E(MQ, """            let tail_cache = self.tail_cache.load(Relaxed);
            if transaction.matches_previous(tail_cache) {
                let new_tail = self.reload_tail_single(wrap_valid_tag);
                if transaction.matches_previous(new_tail) {
                    return Err(TrySendError::Full(val));
                }
            }
            let write_cell""", """            let write_cell""")]),
    V('send-no-possible-drop', 'C05', ['P1e'], [E(MQ, """            let _possible_drop = if RW::do_drop() && !is_tagged(current_tag) {
                Some(ptr::read(&write_cell.val))
            } else {
                None
            };
            ptr::write(&mut write_cell.val, val);
            write_cell.wraps.store(wrap_valid_tag, Release);
            Ok(())""", """            let _ = current_tag;
            ptr::write(&mut write_cell.val, val);
            write_cell.wraps.store(wrap_valid_tag, Release);
            Ok(())""")]),
    V('send-assign-instead-of-write', 'C05', ['P1e', 'W3', 'P1f'], [E(MQ, """            ptr::write(&mut write_cell.val, val);
            write_cell.wraps.store(wrap_valid_tag, Release);
            Ok(())""", """            write_cell.val = val;
            write_cell.wraps.store(wrap_valid_tag, Release);
            Ok(())""")]),
    V('send-mode-le2', 'C12', ['P2a'], [E(MQ, "if self.queue.writers.load(Relaxed) == 1 {", "if self.queue.writers.load(Relaxed) <= 2 {")]),
    V('clone-send-no-multi', 'C12', ['P2e'], [E(MQ, """        self.state.set(QueueState::Multi);
        let rval = InnerSend {""", """        let rval = InnerSend {""")]),
    V('clone-send-new-uni', 'C12', ['P2e', 'W11'], [E(MQ, """            queue: self.queue.clone(),
            state: Cell::new(QueueState::Multi),""", """            queue: self.queue.clone(),
            state: Cell::new(QueueState::Uni),""")]),
    V('send-notify-unguarded', 'C18', ['P14n'], [E(MQ, "if val.is_ok() && self.queue.needs_notify {", "if val.is_ok() {")]),
    V('send-no-notify', 'C08', ['P2d'], [E(MQ, """        if val.is_ok() && self.queue.needs_notify {
            self.queue.waiter.notify();
        }
        val""", """        val""")]),
    V('send-step-two', 'C02', ['P1g'], [E(MQ, "transaction.commit_direct(1, Relaxed);\n            let current_tag", "transaction.commit_direct(2, Relaxed);\n            let current_tag")]),
    V('send-signal-after', 'C13', ['P2c', 'C13map'], [E(MQ, """        if signal.has_action() {
            let disconnected = self.handle_signals(signal);
            if disconnected {
                return Err(TrySendError::Disconnected(val));
            }
        }
        let val = match""", """        if signal.has_action() {
            let _ = self.handle_signals(signal);
        }
        let val = match""")]),
    # ---- behaviour-preserving refactors
    V('rf-publish-fence-relaxed', None, [], [E(MQ, """                        write_cell.wraps.store(wrap_valid_tag, Release);
                        return Ok(());""", """                        fence(Release);
                        write_cell.wraps.store(wrap_valid_tag, Relaxed);
                        return Ok(());""")], kind='refactor'),
    V('rf-publish-seqcst', None, [], [E(MQ, """            write_cell.wraps.store(wrap_valid_tag, Release);
            Ok(())""", """            write_cell.wraps.store(wrap_valid_tag, SeqCst);
            Ok(())""")], kind='refactor'),
    V('rf-send-single-helpers', None, [], [E(MQ, """            let write_cell = &mut *self.data.offset(chead);
            let ref_cell = &*self.refs.offset(chead);
            if !RW::check_ref(&ref_cell.refcnt) {
                return Err(TrySendError::Full(val));
            }
            fence(Acquire);
            transaction.commit_direct(1, Relaxed);
            let current_tag = write_cell.wraps.load(Relaxed);
            let _possible_drop = if RW::do_drop() && !is_tagged(current_tag) {
                Some(ptr::read(&write_cell.val))
            } else {
                None
            };
            ptr::write(&mut write_cell.val, val);
            write_cell.wraps.store(wrap_valid_tag, Release);
            Ok(())
        }
    }
""", """            let write_cell = &mut *self.data.offset(chead);
            let ref_cell = &*self.refs.offset(chead);
            if !RW::check_ref(&ref_cell.refcnt) {
                return Err(TrySendError::Full(val));
            }
            fence(Acquire);
            transaction.commit_direct(1, Relaxed);
            Self::publish_into(write_cell, val, wrap_valid_tag);
            Ok(())
        }
    }

    #[inline(always)]
    unsafe fn publish_into(write_cell: &mut QueueEntry<T>, val: T, tag: usize) {
        let current_tag = write_cell.wraps.load(Relaxed);
        let _possible_drop = if RW::do_drop() && !is_tagged(current_tag) {
            Some(ptr::read(&write_cell.val))
        } else {
            None
        };
        ptr::write(&mut write_cell.val, val);
        write_cell.wraps.store(tag, Release);
    }
""")], kind='refactor'),
    V('rf-send-rename-locals', None, [], [E(MQ, """        let transaction = self.head.load_transaction(Relaxed);
        let (chead, wrap_valid_tag) = transaction.get();
        unsafe {
            let tail_cache = self.tail_cache.load(Relaxed);
            if transaction.matches_previous(tail_cache) {
                let new_tail = self.reload_tail_single(wrap_valid_tag);
                if transaction.matches_previous(new_tail) {
                    return Err(TrySendError::Full(val));
                }
            }
            let write_cell = &mut *self.data.offset(chead);""", """        let txn = self.head.load_transaction(Relaxed);
        let (chead, wrap_valid_tag) = txn.get();
        let transaction = txn;
        unsafe {
            let cached = self.tail_cache.load(Relaxed);
            if transaction.matches_previous(cached) {
                let fresh = self.reload_tail_single(wrap_valid_tag);
                let still_full = transaction.matches_previous(fresh);
                if still_full {
                    return Err(TrySendError::Full(val));
                }
            }
            let write_cell = &mut *self.data.offset(chead);""")], kind='refactor'),
    V('rf-try-send-if-let', None, [], [E(MQ, """        let val = match self.state.get() {
            QueueState::Uni => self.queue.try_send_single(val),
            QueueState::Multi => {
                if self.queue.writers.load(Relaxed) == 1 {
                    fence(Acquire);
                    self.state.set(QueueState::Uni);
                    self.queue.try_send_single(val)
                } else {
                    self.queue.try_send_multi(val)
                }
            }
        };""", """        let val = if let QueueState::Uni = self.state.get() {
            self.queue.try_send_single(val)
        } else if 1 == self.queue.writers.load(Relaxed) {
            fence(Acquire);
            self.state.set(QueueState::Uni);
            self.queue.try_send_single(val)
        } else {
            self.queue.try_send_multi(val)
        };""")], kind='refactor'),

    # ---------------------------------------------------------------- receive side
    V('recv-no-forget', 'C01', ['P3e'], [E(MQ, """                        ctail_attempt = new_attempt;
                        RW::forget_val(rval);""", """                        ctail_attempt = new_attempt;
                        mem::drop(rval);""")]),
    V('recv-no-forget2', 'C05', ['P3e'], [E(MQ, """                        ctail_attempt = new_attempt;
                        RW::forget_val(rval);""", """                        ctail_attempt = new_attempt;""")]),
    V('recv-commit-multi-direct', 'C01', ['P5b'], [E(RC, """            ReaderState::Multi => match self.linked.commit(by, ord) {
                Some(transaction) => Some(ReadAttempt {
                    linked: transaction,
                    state: ReaderState::Multi,
                }),
                None => None,
            },""", """            ReaderState::Multi => {
                self.linked.commit_direct(by, ord);
                None
            }""")]),
    V('recv-no-dec-on-retry', 'C04', ['P3b'], [E(MQ, """                        RW::dec_ref(&ref_cell.refcnt);
                        ctail_attempt = ctail_attempt.reload();""", """                        ctail_attempt = ctail_attempt.reload();""")]),
    V('recv-unpin-before-read', 'C04', ['P3b'], [E(MQ, """                let rval = dependently_mut(seen_tag, &mut read_cell.val, |rc| RW::get_val(rc));
                fence(Release);
                if !is_single {
                    RW::dec_ref(&ref_cell.refcnt);
                }""", """                if !is_single {
                    RW::dec_ref(&ref_cell.refcnt);
                }
                let rval = dependently_mut(seen_tag, &mut read_cell.val, |rc| RW::get_val(rc));
                fence(Release);""")]),
    V('recv-single-forced', 'C04', ['P3c', 'P3b'], [E(MQ, "        let is_single = reader.is_single();", "        let is_single = reader.is_single() || true;")]),
    V('recv-no-recheck', 'C04', ['P3b'], [E(MQ, """                    if reader.load_count(Relaxed) != wrap_valid_tag {
                        RW::dec_ref(&ref_cell.refcnt);
                        ctail_attempt = ctail_attempt.reload();
                        continue;
                    }""", "")]),
    V('mpmc-forget-empty', 'C05', ['P3e', 'S1'], [E(MQ, """    fn forget_val(val: T) {
        mem::forget(val);
    }""", """    fn forget_val(_val: T) {}""")]),
    V('recv-no-second-look', 'C07', ['P3f'], [E(MQ, """                    if self.writers.load(Relaxed) == 0 {
                        fence(Acquire);
                        if rm_tag(read_cell.wraps.load(Acquire)) != wrap_valid_tag {
                            return Err((ptr::null(), TryRecvError::Disconnected));
                        }
                    }
                    return Err((&read_cell.wraps, TryRecvError::Empty));
                }
                let ref_cell""", """                    if self.writers.load(Relaxed) == 0 {
                        return Err((ptr::null(), TryRecvError::Disconnected));
                    }
                    return Err((&read_cell.wraps, TryRecvError::Empty));
                }
                let ref_cell""")]),
    V('view-no-second-look', 'C07', ['P3f'], [E(MQ, """                if self.writers.load(Relaxed) == 0 {
                    fence(Acquire);
                    if rm_tag(read_cell.wraps.load(Acquire)) != wrap_valid_tag {
                        return Err((op, ptr::null(), TryRecvError::Disconnected));
                    }
                }""", """                if self.writers.load(Relaxed) == 0 {
                    return Err((op, ptr::null(), TryRecvError::Disconnected));
                }""")]),
    V('clone-recv-order', 'C12', ['P5c'], [E(MQ, """        self.reader.dup_consumer();
        InnerRecv {
            queue: self.queue.clone(),
            reader: self.reader.clone(),""", """        let rd = self.reader.clone();
        self.reader.dup_consumer();
        InnerRecv {
            queue: self.queue.clone(),
            reader: rd,""")]),
    V('view-no-destroy', 'C05', ['P4'], [E(MQ, """                let rval = op(rv_ref);
                RW::drop_in_place(rv_ref);""", """                let rval = op(rv_ref);""")]),
    V('view-commit-before-closure', 'C04', ['P4', 'P4e'], [E(MQ, """                let rval = op(rv_ref);
                RW::drop_in_place(rv_ref);
                ctail_attempt.commit_direct(1, Release);
                Ok(rval)""", """                ctail_attempt.commit_direct(1, Release);
                let rval = op(rv_ref);
                RW::drop_in_place(rv_ref);
                Ok(rval)""")]),
    V('recv-tagload-relaxed', 'C04', ['O1'], [E(MQ, "let seen_tag = read_cell.wraps.load(DepOrd);", "let seen_tag = read_cell.wraps.load(Relaxed);")]),
    V('recv-no-release-fence', 'C03', ['O2'], [E(MQ, """                let rval = dependently_mut(seen_tag, &mut read_cell.val, |rc| RW::get_val(rc));
                fence(Release);""", """                let rval = dependently_mut(seen_tag, &mut read_cell.val, |rc| RW::get_val(rc));""")]),
    V('recv-step-two', 'C02', ['P3g'], [E(MQ, "match ctail_attempt.commit_attempt(1, Relaxed) {", "match ctail_attempt.commit_attempt(2, Relaxed) {")]),
    V('load-attempt-single-unguarded', 'C12', ['P5a'], [E(RC, """        if self.state.get() == ReaderState::Multi
            && unsafe { (*self.meta).num_consumers.load(Ordering::Relaxed) } == 1
        {""", """        if self.state.get() == ReaderState::Multi
            && unsafe { (*self.meta).num_consumers.load(Ordering::Relaxed) } <= 2
        {""")]),
    V('recv-tag-not-checked', 'C01', ['P3a'], [E(MQ, """                if rm_tag(seen_tag) != wrap_valid_tag {
                    if self.writers.load(Relaxed) == 0 {
                        fence(Acquire);
                        if rm_tag(read_cell.wraps.load(Acquire)) != wrap_valid_tag {
                            return Err((ptr::null(), TryRecvError::Disconnected));
                        }
                    }
                    return Err((&read_cell.wraps, TryRecvError::Empty));
                }
                let ref_cell""", """                if is_tagged(seen_tag) {
                    if self.writers.load(Relaxed) == 0 {
                        fence(Acquire);
                        if rm_tag(read_cell.wraps.load(Acquire)) != wrap_valid_tag {
                            return Err((ptr::null(), TryRecvError::Disconnected));
                        }
                    }
                    return Err((&read_cell.wraps, TryRecvError::Empty));
                }
                let ref_cell""")]),
    V('rf-recv-if-let', None, [], [E(MQ, """                match ctail_attempt.commit_attempt(1, Relaxed) {
                    Some(new_attempt) => {
                        ctail_attempt = new_attempt;
                        RW::forget_val(rval);
                    }
                    None => return Ok(rval),
                }""", """                if let Some(new_attempt) = ctail_attempt.commit_attempt(1, Relaxed) {
                    ctail_attempt = new_attempt;
                    RW::forget_val(rval);
                } else {
                    return Ok(rval);
                }""")], kind='refactor'),
    V('rf-recv-commit-release', None, [], [E(MQ, """                let rval = dependently_mut(seen_tag, &mut read_cell.val, |rc| RW::get_val(rc));
                fence(Release);
                if !is_single {
                    RW::dec_ref(&ref_cell.refcnt);
                }
                match ctail_attempt.commit_attempt(1, Relaxed) {""", """                let rval = dependently_mut(seen_tag, &mut read_cell.val, |rc| RW::get_val(rc));
                if !is_single {
                    RW::dec_ref(&ref_cell.refcnt);
                }
                match ctail_attempt.commit_attempt(1, Release) {""")], kind='refactor'),
    V('rf-recv-examine-each-iter', None, [], [E(MQ, """        self.examine_signals();
        loop {
            // Loaded before the attempt so it can never be ahead of the slot the""", """        loop {
            self.examine_signals();
            // Loaded before the attempt so it can never be ahead of the slot the""")], kind='refactor'),

    # ---------------------------------------------------------------- waiting / waking
    V('senddrop-no-notify', 'C07', ['P8'], [E(MQ, """        self.queue.manager.remove_token(self.token);
        self.queue.waiter.notify();
    }""", """        self.queue.manager.remove_token(self.token);
    }""")]),
    V('senddrop-notify-guarded', 'C08', ['P8'], [E(MQ, """        self.queue.manager.remove_token(self.token);
        self.queue.waiter.notify();
    }""", """        self.queue.manager.remove_token(self.token);
        if self.queue.needs_notify && self.queue.writers.load(Relaxed) > 0 {
            self.queue.waiter.notify();
        }
    }""")]),
    V('senddrop-no-dec', 'C07', ['P8'], [E(MQ, """        self.queue.writers.fetch_sub(1, SeqCst);
        fence(SeqCst);
        self.queue.manager.remove_token(self.token);""", """        fence(SeqCst);
        self.queue.manager.remove_token(self.token);""")]),
    V('blocking-notify-one', 'C08', ['P7a'], [E(WAIT, "self.condvar.notify_all();", "self.condvar.notify_one();")]),
    V('blocking-check-outside-lock', 'C08', ['P7b'], [E(WAIT, """            {
                let mut lock = self.lock.lock();
                if check(seq, w_pos, wc) {
                    return;
                }
                self.condvar.wait(&mut lock);
            }""", """            if check(seq, w_pos, wc) {
                return;
            }
            {
                let mut lock = self.lock.lock();
                self.condvar.wait(&mut lock);
            }""")]),
    V('blocking-notify-no-lock', 'C08', ['P7b'], [E(WAIT, """        let _lock = self.lock.lock();
        self.condvar.notify_all();""", """        self.condvar.notify_all();""")]),
    V('blocking-needs-notify-false', 'C08', ['P7a'], [E(WAIT, """        let _lock = self.lock.lock();
        self.condvar.notify_all();
    }

    fn needs_notify(&self) -> bool {
        true
    }""", """        let _lock = self.lock.lock();
        self.condvar.notify_all();
    }

    fn needs_notify(&self) -> bool {
        false
    }""")]),
    V('recv-empty-ends', 'C07', ['P6b'], [E(MQ, """                Err((_, TryRecvError::Disconnected)) => return Err(RecvError),
                Err((pt, TryRecvError::Empty)) => {
                    unsafe {
                        self.queue.waiter.wait(count, &*pt, &self.queue.writers);
                    }
                }""", """                Err((_, TryRecvError::Disconnected)) => return Err(RecvError),
                Err((pt, TryRecvError::Empty)) => {
                    if count == usize::MAX - 7 {
                        return Err(RecvError);
                    }
                    unsafe {
                        self.queue.waiter.wait(count, &*pt, &self.queue.writers);
                    }
                }""")]),
    V('poll-empty-is-none', 'C07', ['P6b'], [E(MQ, """                        self.prod_wait.notify_all();
                        return Ok(Async::NotReady);
                    }
                }""", """                        self.prod_wait.notify_all();
                        return Ok(Async::NotReady);
                    }
                    if self.reader.queue.writers.load(Relaxed) == 0 {
                        return Ok(Async::Ready(None));
                    }
                }""")]),
    V('park-push-before-check', 'C14', ['P7c'], [E(MQ, """        let mut parked = self.parked.lock();
        if check(seq, at, wc) {
            return false;
        }
        parked.push_back(current());
        true""", """        if check(seq, at, wc) {
            return false;
        }
        let mut parked = self.parked.lock();
        parked.push_back(current());
        true""")]),
    V('futwait-true-without-park', 'C14', ['P7d'], [E(MQ, """        if self.spin(seq, at, wc) && self.park(seq, at, wc) {
            ::std::thread::sleep(::std::time::Duration::from_millis(100));
            true
        } else {
            false
        }""", """        if self.spin(seq, at, wc) {
            let _ = self.park(seq, at, wc);
            true
        } else {
            false
        }""")]),
    V('send-or-park-unlocked-attempt', 'C14', ['P7c'], [E(MQ, """        let mut parked = self.parked.lock();
        match f(val) {
            Err(TrySendError::Full(v)) => {
                parked.push_back(current());
                Err(TrySendError::Full(v))
            }
            v => v,
        }""", """        match f(val) {
            Err(TrySendError::Full(v)) => {
                let mut parked = self.parked.lock();
                parked.push_back(current());
                Err(TrySendError::Full(v))
            }
            v => v,
        }""")]),
    V('futnotify-partial-drain', 'C14', ['P7c'], [E(MQ, """    fn notify_all(&self) {
        let mut parked = self.parked.lock();
        for val in parked.drain(..) {
            val.notify();
        }
    }""", """    fn notify_all(&self) {
        let mut parked = self.parked.lock();
        for val in parked.drain(..1) {
            val.notify();
        }
    }""")]),
    V('rf-blocking-notify-explicit-drop', None, [], [E(WAIT, """        let _lock = self.lock.lock();
        self.condvar.notify_all();""", """        let guard = self.lock.lock();
        self.condvar.notify_all();
        drop(guard);""")], kind='refactor'),
    V('rf-senddrop-notify-first-stmt-order', None, [], [E(MQ, """        self.queue.manager.remove_token(self.token);
        self.queue.waiter.notify();
    }""", """        self.queue.waiter.notify();
        self.queue.manager.remove_token(self.token);
    }""")], kind='refactor'),

    # ---------------------------------------------------------------- population / futures / memory / misc
    V('addstream-start-zero', 'C10', ['P10a'], [E(RC, "let (new_group, new_reader) = current_group.add_stream(raw, wrap);", "let (new_group, new_reader) = current_group.add_stream(0 * raw, wrap);")]),
    V('addstream-start-head-index', 'C10', ['P10a'], [E(RC, "let raw = (*reader.pos).pos_data.load_raw(Ordering::Relaxed);", "let raw = (*reader.pos).pos_data.load(Ordering::Relaxed) as usize;")]),
    V('addstream-vec-new', 'C10', ['P10b'], [E(RC, """        let mut new_readers = self.readers.clone();
        new_readers.push(new_pos as *const ReaderPos);""", """        let mut new_readers = Vec::new();
        new_readers.push(new_pos as *const ReaderPos);""")]),
    V('addstream-hoisted-group', 'C10', ['P10b'], [E(RC, """        let mut current_ptr = self.readers.load(CONSUME);
        loop {
            unsafe {
                let current_group = &*current_ptr;
                let raw""", """        let mut current_ptr = self.readers.load(CONSUME);
        let current_group = unsafe { &*current_ptr };
        loop {
            unsafe {
                let raw""")]),
    V('addstream-direct-dealloc', 'C16', ['W12', 'P10d'], [E(RC, """                        fence(Ordering::SeqCst);
                        manager.free(current_ptr, 1);
                        return new_reader;""", """                        fence(Ordering::SeqCst);
                        ptr::read(current_ptr);
                        alloc::deallocate(current_ptr, 1);
                        let _ = manager;
                        return new_reader;""")]),
    V('addstream-leak-on-fail', 'C17', ['P10c'], [E(RC, """                        ptr::read(new_group);
                        alloc::deallocate(new_reader.meta as *mut ReaderMeta, 1);
                        alloc::deallocate(new_reader.pos as *mut ReaderPos, 1);
                        alloc::deallocate(new_group, 1);""", """                        let _ = (new_group, &new_reader);""")]),
    V('unsub-eq2', 'C11', ['P9b'], [E(MQ, "if self.reader.remove_consumer() == 1 {", "if self.reader.remove_consumer() == 2 {")]),
    V('unsub-result-true', 'C11', ['P9f'], [E(MQ, """    pub fn unsubscribe(self) -> bool {
        self.reader.get_consumers() == 1
    }

    /// Runs the passed function""", """    pub fn unsubscribe(self) -> bool {
        self.reader.get_consumers() >= 1
    }

    /// Runs the passed function""")]),
    V('remove-retain-inverted', 'C11', ['P10b'], [E(RC, "new_readers.retain(|pt| *pt != reader);", "new_readers.retain(|pt| *pt == reader);")]),
    V('unsub-no-set-reader', 'C13', ['P9c'], [E(MQ, """                {
                    self.queue.manager.signal.set_reader(SeqCst);
                }""", """                {
                }""")]),
    V('unsub-clear-reader', 'C13', ['W10'], [E(MQ, """            token: self.queue.manager.get_token(),
            alive: true,
        }
    }

    #[inline(always)]
    fn examine_signals""", """            token: { self.queue.manager.signal.clear_reader(SeqCst); self.queue.manager.get_token() },
            alive: true,
        }
    }

    #[inline(always)]
    fn examine_signals""")]),
    V('sink-disconnected-notready', 'C13', ['P11a', 'P11b'], [E(MQ, "Err(TrySendError::Disconnected(msg)) => Err(SendError(msg)),", "Err(TrySendError::Disconnected(msg)) => Ok(AsyncSink::NotReady(msg)),")]),
    V('poll-no-prod-notify', 'C14', ['P11d'], [E(MQ, """                Ok(msg) => {
                    self.prod_wait.notify_all();
                    return Ok(Async::Ready(Some(msg)));
                }
                Err((_, TryRecvError::Disconnected)) => return Ok(Async::Ready(None)),
                Err((pt, _)) => {
                    if unsafe { self.wait.fut_wait(count""", """                Ok(msg) => {
                    return Ok(Async::Ready(Some(msg)));
                }
                Err((_, TryRecvError::Disconnected)) => return Ok(Async::Ready(None)),
                Err((pt, _)) => {
                    if unsafe { self.wait.fut_wait(count""")]),
    V('futdrop-noop-callback', 'C14', ['P11e'], [E(MQ, """            self.reader.do_unsubscribe_with(|| {
                prod_wait.notify();
            })
        }
    }
}

impl<RW: QueueRW<T>, R, F: for<'r> FnMut(&T) -> R, T> Drop""", """            let _ = &prod_wait;
            self.reader.do_unsubscribe_with(|| ())
        }
    }
}

impl<RW: QueueRW<T>, R, F: for<'r> FnMut(&T) -> R, T> Drop""")]),
    V('poll-blocks-on-waiter', 'C15', ['P11f'], [E(MQ, """                Err((pt, _)) => {
                    if unsafe { self.wait.fut_wait(count, &*pt, &self.reader.queue.writers) } {
                        // A failed attempt may have pinned a slot for a while: a producer that
                        // was refused because of that pin has to be told that it is gone
                        self.prod_wait.notify_all();
                        return Ok(Async::NotReady);
                    }
                }""", """                Err((pt, _)) => {
                    self.prod_wait.notify_all();
                    unsafe { self.reader.queue.waiter.wait(count, &*pt, &self.reader.queue.writers) };
                }""")]),
    V('tryfreeing-no-epoch-check', 'C16', ['P12a'], [E(MEM, """                if epoch != at {
                    return false;
                }""", """                let _ = epoch;""")]),
    V('tryfreeing-any', 'C16', ['P12a'], [E(MEM, """        for token_ptr in &self.tokens {
            unsafe {
                let token = &**token_ptr;
                let epoch = token.epoch.load(MAYBE_ACQUIRE);
                if epoch != at {
                    return false;
                }
            }
        }""", """        if !self.tokens.iter().any(|t| unsafe { (**t).epoch.load(MAYBE_ACQUIRE) } == at) {
            return false;
        }""")]),
    V('rf-tryfreeing-all', None, [], [E(MEM, """        for token_ptr in &self.tokens {
            unsafe {
                let token = &**token_ptr;
                let epoch = token.epoch.load(MAYBE_ACQUIRE);
                if epoch != at {
                    return false;
                }
            }
        }""", """        if !self.tokens.iter().all(|t| unsafe { (**t).epoch.load(MAYBE_ACQUIRE) } == at) {
            return false;
        }""")], kind='refactor'),
    V('getmaxdiff-announces-epoch', 'C16', ['P12c', 'W12'], [
        E(RC, """    pub fn get_max_diff(&self, cur_writer: usize) -> Option<Index> {
        loop {
            unsafe {
                let first_ptr = self.readers.load(CONSUME);
                let rg = &*first_ptr;""", """    pub fn get_max_diff(&self, cur_writer: usize, mgr: &MemoryManager, tok: *const crate::memory::MemToken) -> Option<Index> {
        loop {
            unsafe {
                let first_ptr = self.readers.load(CONSUME);
                mgr.update_token(tok);
                let rg = &*first_ptr;"""),
        E(MQ, "if let Some(max_diff_from_head) = self.tail.get_max_diff(count) {", "if let Some(max_diff_from_head) = self.tail.get_max_diff(count, &self.manager, ptr::null()) {"),
        E(MQ, "let max_diff_from_head = self.tail.get_max_diff(count).expect(", "let max_diff_from_head = self.tail.get_max_diff(count, &self.manager, ptr::null()).expect("),
    ]),
    V('getmaxdiff-no-revalidate', 'C16', ['P10f'], [E(RC, """                if second_ptr == first_ptr {
                    return rval;
                }""", """                let _ = second_ptr;
                return rval;""")]),
    V('startfree-le', 'C17', ['P13d'], [E(MEM, "if inner.epoch == cur_epoch {", "if inner.epoch <= cur_epoch {")]),
    V('drop-no-ring-free', 'C17', ['P13b', 'P13a'], [E(MQ, """        alloc::deallocate(self.data, self.capacity as usize);
        alloc::deallocate(self.refs, self.capacity as usize);""", """        alloc::deallocate(self.refs, self.capacity as usize);""")]),
    V('unsub-token-last-only', 'C17', ['P9e'], [E(MQ, """                    self.queue.manager.signal.set_reader(SeqCst);
                }
            }
            self.queue.manager.remove_token(self.token);""", """                    self.queue.manager.signal.set_reader(SeqCst);
                }
                self.queue.manager.remove_token(self.token);
            }""")]),
    V('recv-spin-instead-of-empty', 'C18', ['P14'], [E(MQ, """                let seen_tag = read_cell.wraps.load(DepOrd);
                if rm_tag(seen_tag) != wrap_valid_tag {
                    if self.writers.load(Relaxed) == 0 {""", """                let mut seen_tag = read_cell.wraps.load(DepOrd);
                while rm_tag(seen_tag) != wrap_valid_tag && self.writers.load(Relaxed) > 1 {
                    seen_tag = read_cell.wraps.load(DepOrd);
                }
                if rm_tag(seen_tag) != wrap_valid_tag {
                    if self.writers.load(Relaxed) == 0 {""")]),
    V('send-multi-spin-on-pin', 'C18', ['P14', 'P1c'], [E(MQ, """                if !RW::check_ref(&ref_cell.refcnt) {
                    return Err(TrySendError::Full(val));
                }
                fence(Acquire);

                match transaction.commit(1, Relaxed) {""", """                if !RW::check_ref(&ref_cell.refcnt) {
                    transaction = self.head.load_transaction(Relaxed);
                    continue;
                }
                fence(Acquire);

                match transaction.commit(1, Relaxed) {""")]),
    V('capacity-unrounded-ring', 'C03', ['P15'], [E(MQ, "let refdat: *mut RefCnt = alloc::allocate(capacity as usize);", "let refdat: *mut RefCnt = alloc::allocate(_capacity as usize + 1);")]),
    V('wait-check-args-swapped', 'C15', ['P7f'], [E(MQ, """        loop {
            if check(seq, w_pos, wc) {
                return;
            }
            yield_now();
        }""", """        loop {
            if check(seq, wc, w_pos) {
                return;
            }
            yield_now();
        }""")]),
    V('mpmc-wrapper-recv-try', 'C09', ['S3'], [E('src/mpmc.rs', """    pub fn recv(&self) -> Result<T, RecvError> {
        self.receiver.recv()
    }

    /// Removes the given reader from the queue subscription lib
    /// Returns true if this is the last reader in a given broadcast unit
    ///
    /// # Examples
    ///
    /// ```
    /// use multiqueue2::mpmc_queue;
    /// let (writer, reader) = mpmc_queue(2);
    /// writer.try_send(1).expect("This will succeed since queue is empty");
    /// reader.try_recv().expect("This reader can read");
    /// reader.unsubscribe();
    /// // Fails since there's no readers left
    /// assert!(writer.try_send(1).is_err());
    /// ```
    pub fn unsubscribe(self) -> bool {
        self.receiver.unsubscribe()
    }

    /// If there is only one""", """    pub fn recv(&self) -> Result<T, RecvError> {
        self.receiver.try_recv().map_err(|_| RecvError)
    }

    /// Removes the given reader from the queue subscription lib
    /// Returns true if this is the last reader in a given broadcast unit
    ///
    /// # Examples
    ///
    /// ```
    /// use multiqueue2::mpmc_queue;
    /// let (writer, reader) = mpmc_queue(2);
    /// writer.try_send(1).expect("This will succeed since queue is empty");
    /// reader.try_recv().expect("This reader can read");
    /// reader.unsubscribe();
    /// // Fails since there's no readers left
    /// assert!(writer.try_send(1).is_err());
    /// ```
    pub fn unsubscribe(self) -> bool {
        self.receiver.unsubscribe()
    }

    /// If there is only one""")]),
    V('unirecv-clone-impl', 'C04', ['W13'], [E('src/mpmc.rs', """pub struct MPMCFutSender<T> {""", """impl<T> Clone for MPMCUniReceiver<T> {
    fn clone(&self) -> Self {
        MPMCUniReceiver {
            receiver: self.receiver.clone(),
        }
    }
}

pub struct MPMCFutSender<T> {""")]),
    V('into-single-unguarded', 'C04', ['W13'], [E('src/mpmc.rs', """        if self.receiver.is_single() {
            Ok(MPMCUniReceiver {
                receiver: self.receiver,
            })
        } else {
            Err(self)
        }""", """        Ok(MPMCUniReceiver {
            receiver: self.receiver,
        })""")]),
    V('teardown-masked-compare', 'C05', ['P13c'], [
        E(MQ, "while last_read.load_count(Relaxed) != self.head.load_count(Relaxed) {", "while last_read.load(Relaxed) != self.head.load(Relaxed) {"),
    ]),
    V('rf-drop-order-explicit', None, [], [E(MQ, """        alloc::deallocate(self.data, self.capacity as usize);
        alloc::deallocate(self.refs, self.capacity as usize);""", """        let cap = self.capacity as usize;
        alloc::deallocate(self.refs, cap);
        alloc::deallocate(self.data, cap);""")], kind='refactor'),
    V('rf-addstream-read-parent-once', None, [], [E(RC, """        let mut current_ptr = self.readers.load(CONSUME);
        loop {
            unsafe {
                let current_group = &*current_ptr;
                let raw = (*reader.pos).pos_data.load_raw(Ordering::Relaxed);
                let wrap = (*reader.pos).pos_data.wrap_at();""", """        let mut current_ptr = self.readers.load(CONSUME);
        let wrap = unsafe { (*reader.pos).pos_data.wrap_at() };
        loop {
            unsafe {
                let current_group = &*current_ptr;
                let raw = (*reader.pos).pos_data.load_raw(Ordering::Relaxed);""")], kind='refactor'),

    # ---------------------------------------------------------------- extra rules
    V('scan-min-fold', 'C03', ['P10g'], [E(RC, "max_diff = if diff > max_diff { diff } else { max_diff };", "max_diff = if diff < max_diff || max_diff == 0 { diff } else { max_diff };")]),
    V('update-token-no-store', 'C17', ['P12e'], [E(MEM, """            if token_e != epoch {
                token.epoch.store(epoch, Ordering::Release);
            }""", """            if token_e > epoch {
                token.epoch.store(epoch, Ordering::Release);
            }""")]),
    V('startfree-no-signal', 'C17', ['P12f'], [E(MEM, """                self.epoch
                    .store(cur_epoch.wrapping_add(1), Ordering::Release);
                self.signal.set_epoch(Ordering::Release);""", """                self.epoch
                    .store(cur_epoch.wrapping_add(1), Ordering::Release);""")]),
    V('recv-handle-signals-no-announce', 'C17', ['P12g'], [E(MQ, """    #[cold]
    fn handle_signals(&self, signal: LoadedSignal) {
        if signal.get_epoch() {
            self.queue.manager.update_token(self.token);
        }
    }""", """    #[cold]
    fn handle_signals(&self, signal: LoadedSignal) {
        let _ = signal.get_epoch();
    }""")]),
    V('fut-addstream-lists-swapped', 'C14', ['P11g'], [E(MQ, """        let rx = self.reader.add_stream();
        FutInnerRecv {
            reader: rx,
            wait: self.wait.clone(),
            prod_wait: self.prod_wait.clone(),
        }""", """        let rx = self.reader.add_stream();
        FutInnerRecv {
            reader: rx,
            wait: self.prod_wait.clone(),
            prod_wait: self.wait.clone(),
        }""")]),
    V('fut-ctor-same-list', 'C14', ['P11g'], [E(MQ, """    let rtx = FutInnerRecv {
        reader: rx,
        wait: cons_arc,
        prod_wait: prod_arc,
    };
    (ftx, rtx)
}

/// Usage: futures_multiqueue_with""", """    let rtx = FutInnerRecv {
        reader: rx,
        wait: cons_arc.clone(),
        prod_wait: cons_arc,
    };
    let _ = prod_arc;
    (ftx, rtx)
}

/// Usage: futures_multiqueue_with""")]),
    V('signal-bits-overlap', 'C13', ['W10'], [E('src/atomicsignal.rs', "const NO_READER: usize = 1 << 1;", "const NO_READER: usize = 1 << 0;")]),
    V('refiter-blocks', 'C09', ['S3'], [E('src/mpmc.rs', """impl<'a, T> Iterator for MPMCRefIter<'a, T> {
    type Item = T;

    #[inline(always)]
    fn next(&mut self) -> Option<T> {
        match self.recv.try_recv() {""", """impl<'a, T> Iterator for MPMCRefIter<'a, T> {
    type Item = T;

    #[inline(always)]
    fn next(&mut self) -> Option<T> {
        match self.recv.recv() {""")]),
    V('rf-scan-max-call', None, [], [E(RC, "max_diff = if diff > max_diff { diff } else { max_diff };", "max_diff = ::std::cmp::max(diff, max_diff);")], kind='refactor'),
    V('rf-scan-max-flipped', None, [], [E(RC, "max_diff = if diff > max_diff { diff } else { max_diff };", "if max_diff < diff { max_diff = diff; }")], kind='refactor'),

    # ---------------------------------------------------------------- thorough-tier sweeps
    V('sweep-payload-touch-in-unsubscribe', 'C05', ['W3s'], [E(MQ, """    /// Identical to InnerRecv::unsubscribe()
    pub fn unsubscribe(self) -> bool {
        self.reader.reader.get_consumers() == 1
    }

    pub fn into_multi(self)""", """    /// Identical to InnerRecv::unsubscribe()
    pub fn unsubscribe(self) -> bool {
        if self.reader.reader.get_consumers() == 7 {
            unsafe { ptr::drop_in_place(&mut (*self.reader.queue.data.offset(0)).val) };
        }
        self.reader.reader.get_consumers() == 1
    }

    pub fn into_multi(self)""")]),
    V('sweep-head-write-in-add-stream', 'C01', ['W1s', 'W1'], [E(MQ, """    pub fn add_stream(&self) -> InnerRecv<RW, T> {
        InnerRecv {""", """    pub fn add_stream(&self) -> InnerRecv<RW, T> {
        if self.reader.get_consumers() == 9 {
            self.queue.head.load_transaction(Relaxed).commit_direct(1, Relaxed);
        }
        InnerRecv {""")]),

    # ---------------------------------------------------------------- value-role rules
    V('fullness-window-mask', 'C03', ['P1h'], [E('src/countedindex.rs', "let wrap = self.mask.wrapping_add(1);", "let wrap = self.mask.wrapping_add(0);")]),
    V('initial-tag-untagged', 'C05', ['P3t'], [E('src/countedindex.rs', "pub const INITIAL_QUEUE_FLAG: usize = ::std::usize::MAX;", "pub const INITIAL_QUEUE_FLAG: usize = ::std::usize::MAX >> 1;")]),
    V('recheck-masked', 'C04', ['P3t', 'P3b'], [E(MQ, "if reader.load_count(Relaxed) != wrap_valid_tag {", "if reader.load_count(Relaxed) & 0xffff != wrap_valid_tag & 0xffff {")]),
    V('tryfreeing-no-epoch-record', 'C17', ['P12i'], [E(MEM, """        self.epoch = at;
        true""", """        let _ = at;
        true""")]),
    V('into-single-drop-first', 'C09', ['P9g'], [E(MQ, """        {
            new_mreader = self.reader.clone();
            drop(self);
        }
        if new_mreader.is_single() {""", """        let single = self.reader.is_single();
        {
            new_mreader = self.reader.clone();
            drop(self);
        }
        if single {""")]),
    V('token-removed-before-unsubscribe', 'C16', ['P12d'], [E(MQ, """        if self.alive {
            self.alive = false;
            if self.reader.remove_consumer() == 1 {""", """        if self.alive {
            self.alive = false;
            self.queue.manager.remove_token(self.token);
            if self.reader.remove_consumer() == 1 {"""), E(MQ, """                }
            }
            self.queue.manager.remove_token(self.token);
            fence(SeqCst);""", """                }
            }
            fence(SeqCst);""")]),
    V('remove-token-free-under-lock', 'C17', ['P12h'], [E(MEM, """        {
            let mut inner = self.mem_manager.lock().unwrap();
            inner.remove_token(token);
        }""", """        let mut inner = self.mem_manager.lock().unwrap();
        inner.remove_token(token);""")]),
    V('blocking-recheck-no-writers', 'C08', ['P7b'], [E(WAIT, """                let mut lock = self.lock.lock();
                if check(seq, w_pos, wc) {
                    return;
                }
                self.condvar.wait(&mut lock);""", """                let mut lock = self.lock.lock();
                if seq == load_tagless(w_pos) || past(seq, load_tagless(w_pos)).1 {
                    return;
                }
                self.condvar.wait(&mut lock);""")]),
    V('futnotify-take-nine', 'C13', ['P7c'], [E(MQ, "                inline_v.extend(parked.drain(..));", "                inline_v.extend(parked.drain(..).take(9));")]),
    V('poll-count-hoisted', 'C15', ['P6d'], [E(MQ, """        self.reader.examine_signals();
        loop {
            // Loaded before the attempt, see InnerRecv::recv
            let count = self.reader.reader.load_count(Relaxed);""", """        self.reader.examine_signals();
        // Loaded before the attempt, see InnerRecv::recv
        let count = self.reader.reader.load_count(Relaxed);
        loop {""")]),
    V('recv-examine-only-on-empty', 'C17', ['P6a'], [E(MQ, """        self.examine_signals();
        loop {
            // Loaded before the attempt so it can never be ahead of the slot the
            // attempt examines, even if another consumer of this stream advances it
            let count = self.reader.load_count(Relaxed);
            match self.queue.try_recv(&self.reader) {
                Ok(v) => return Ok(v),
                Err((_, TryRecvError::Disconnected)) => return Err(RecvError),
                Err((pt, TryRecvError::Empty)) => {
                    unsafe {""", """        loop {
            // Loaded before the attempt so it can never be ahead of the slot the
            // attempt examines, even if another consumer of this stream advances it
            let count = self.reader.load_count(Relaxed);
            match self.queue.try_recv(&self.reader) {
                Ok(v) => return Ok(v),
                Err((_, TryRecvError::Disconnected)) => return Err(RecvError),
                Err((pt, TryRecvError::Empty)) => {
                    self.examine_signals();
                    unsafe {""")]),
    V('reload-tail-ok-stale', 'C09', ['P1b'], [E(MQ, """                Ok(_) => current_tail,
                Err(val) => val,""", """                Ok(val) | Err(val) => val,""")]),
    V('getmaxdiff-validate-before-scan', 'C10', ['P10f'], [E(RC, """                let rg = &*first_ptr;
                let rval = rg.get_max_diff(cur_writer);""", """                let rg = &*first_ptr;
                let second_ptr = self.readers.load(Ordering::Relaxed);
                let rval = rg.get_max_diff(cur_writer);"""), E(RC, """                let second_ptr = self.readers.load(Ordering::Relaxed);
                if second_ptr == first_ptr {""", """                if second_ptr == first_ptr {""")]),
    V('view-commit-before-destroy', 'C05', ['P4'], [E(MQ, """                RW::drop_in_place(rv_ref);
                ctail_attempt.commit_direct(1, Release);""", """                ctail_attempt.commit_direct(1, Release);
                RW::drop_in_place(rv_ref);""")]),
    V('recv-is-single-reevaluated', 'C06', ['P3b'], [E(MQ, """                if !is_single {
                    RW::dec_ref(&ref_cell.refcnt);
                }
                match ctail_attempt""", """                if !reader.is_single() {
                    RW::dec_ref(&ref_cell.refcnt);
                }
                match ctail_attempt""")]),
    V('decref-store-zero', 'C04', ['P3b', 'S1', 'W8'], [E(MQ, "        r.fetch_sub(1, Relaxed);", "        r.store(0, Relaxed);")]),
    V('unsub-check-then-dec', 'C11', ['P9b'], [E(MQ, "            if self.reader.remove_consumer() == 1 {", "            let last = self.reader.is_single();\n            self.reader.remove_consumer();\n            if last {")]),
    V('senddrop-notify-last-only', 'C07', ['P8'], [E(MQ, """        self.queue.writers.fetch_sub(1, SeqCst);
        fence(SeqCst);
        self.queue.manager.remove_token(self.token);
        self.queue.waiter.notify();""", """        let last = self.queue.writers.load(Relaxed) == 1;
        self.queue.writers.fetch_sub(1, SeqCst);
        fence(SeqCst);
        self.queue.manager.remove_token(self.token);
        if last {
            self.queue.waiter.notify();
        }""")]),
    V('update-token-blocking-lock', 'C18', ['P14'], [E(MEM, """            if token_e != epoch {
                token.epoch.store(epoch, Ordering::Release);
            }""", """            if token_e != epoch {
                token.epoch.store(epoch, Ordering::Release);
                let _g = self.mem_manager.lock().unwrap();
            }""")]),

    V('check-ignores-tag-bit', 'C15', ['P7g'], [E(WAIT, "wc.load(Relaxed) == 0 || (!is_tagged(raw) && (seq == cur_count || past(seq, cur_count).1))", "wc.load(Relaxed) == 0 || (is_tagged(0) || (seq == cur_count || past(seq, cur_count).1))")]),
    V('rf-check-early-return', None, [], [E(WAIT, """    wc.load(Relaxed) == 0 || (!is_tagged(raw) && (seq == cur_count || past(seq, cur_count).1))""", """    if wc.load(Relaxed) == 0 {
        return true;
    }
    if is_tagged(raw) {
        return false;
    }
    seq == cur_count || past(seq, cur_count).1""")], kind='refactor'),

    # ---------------------------------------------------------------- more behaviour-preserving refactors
    V('rf-inline-reload-tail-single', None, [], [E(MQ, """                let new_tail = self.reload_tail_single(wrap_valid_tag);
                if transaction.matches_previous(new_tail) {
                    return Err(TrySendError::Full(val));
                }
            }
            let write_cell = &mut *self.data.offset(chead);
            let ref_cell = &*self.refs.offset(chead);
            if !RW::check_ref(&ref_cell.refcnt) {
                return Err(TrySendError::Full(val));
            }
            fence(Acquire);
            transaction.commit_direct(1, Relaxed);""", """                let max_diff_from_head = self.tail.get_max_diff(wrap_valid_tag).expect("consumers ran over the single writer");
                let new_tail = CountedIndex::get_previous(wrap_valid_tag, max_diff_from_head);
                self.tail_cache.store(new_tail, Relaxed);
                if transaction.matches_previous(new_tail) {
                    return Err(TrySendError::Full(val));
                }
            }
            let write_cell = &mut *self.data.offset(chead);
            let ref_cell = &*self.refs.offset(chead);
            if !RW::check_ref(&ref_cell.refcnt) {
                return Err(TrySendError::Full(val));
            }
            fence(Acquire);
            transaction.commit_direct(1, Relaxed);""")], kind='refactor'),
    V('rf-recv-refcell-early', None, [], [E(MQ, """                let read_cell = &mut *self.data.offset(ctail);

                // For any curious readers""", """                let read_cell = &mut *self.data.offset(ctail);
                let ref_cell = &*self.refs.offset(ctail);

                // For any curious readers"""), E(MQ, """                    return Err((&read_cell.wraps, TryRecvError::Empty));
                }
                let ref_cell = &*self.refs.offset(ctail);
                if !is_single {""", """                    return Err((&read_cell.wraps, TryRecvError::Empty));
                }
                if !is_single {""")], kind='refactor'),
    V('rf-unsubscribe-early-return', None, [], [E(MQ, """        if self.alive {
            self.alive = false;
            if self.reader.remove_consumer() == 1 {
                if self
                    .queue
                    .tail
                    .remove_reader(&self.reader, &self.queue.manager)
                {
                    self.queue.manager.signal.set_reader(SeqCst);
                }
            }
            self.queue.manager.remove_token(self.token);
            fence(SeqCst);
            f()
        }""", """        if !self.alive {
            return;
        }
        self.alive = false;
        let was_last = self.reader.remove_consumer() == 1;
        if was_last {
            let now_empty = self.queue.tail.remove_reader(&self.reader, &self.queue.manager);
            if now_empty {
                self.queue.manager.signal.set_reader(SeqCst);
            }
        }
        self.queue.manager.remove_token(self.token);
        fence(SeqCst);
        f()""")], kind='refactor'),
    V('rf-clone-recv-bind', None, [], [E(MQ, """        self.reader.dup_consumer();
        InnerRecv {
            queue: self.queue.clone(),
            reader: self.reader.clone(),
            token: self.queue.manager.get_token(),
            alive: true,
        }""", """        self.reader.dup_consumer();
        let reader = self.reader.clone();
        let token = self.queue.manager.get_token();
        let queue = self.queue.clone();
        InnerRecv { queue, reader, token, alive: true }""")], kind='refactor'),
    V('rf-senddrop-keep-count', None, [], [E(MQ, """        self.queue.writers.fetch_sub(1, SeqCst);
        fence(SeqCst);
        self.queue.manager.remove_token(self.token);
        self.queue.waiter.notify();""", """        let _before = self.queue.writers.fetch_sub(1, SeqCst);
        fence(SeqCst);
        let q = &self.queue;
        q.manager.remove_token(self.token);
        q.waiter.notify();""")], kind='refactor'),
    V('rf-start-send-bind', None, [], [E(MQ, """        match self
            .prod_wait
            .send_or_park(|m| self.writer.try_send(m), msg)
        {
            Ok(_) => {""", """        let outcome = self
            .prod_wait
            .send_or_park(|m| self.writer.try_send(m), msg);
        match outcome {
            Ok(_) => {""")], kind='refactor'),
    V('rf-futnotify-collect-then-notify', None, [], [E(MQ, """            if parked.len() > 8 {
                for val in parked.drain(..) {
                    val.notify();
                }
            } else {""", """            if parked.len() > 8 {
                let all: Vec<Task> = parked.drain(..).collect();
                drop(parked);
                for val in all {
                    val.notify();
                }
            } else {""")], kind='refactor'),
    V('rf-blockingwait-loop-shape', None, [], [E(WAIT, """        loop {
            {
                let mut lock = self.lock.lock();
                if check(seq, w_pos, wc) {
                    return;
                }
                self.condvar.wait(&mut lock);
            }
            if check(seq, w_pos, wc) {
                return;
            }
        }""", """        let mut lock = self.lock.lock();
        while !check(seq, w_pos, wc) {
            self.condvar.wait(&mut lock);
        }""")], kind='refactor'),
    V('rf-view-named-result', None, [], [E(MQ, """                let rval = op(rv_ref);
                RW::drop_in_place(rv_ref);
                ctail_attempt.commit_direct(1, Release);
                Ok(rval)""", """                let out = op(rv_ref);
                RW::drop_in_place(rv_ref);
                fence(Release);
                ctail_attempt.commit_direct(1, Relaxed);
                Ok(out)""")], kind='refactor'),
    V('rf-addstream-named-parts', None, [], [E(RC, """                    Ok(_) => {
                        fence(Ordering::SeqCst);
                        manager.free(current_ptr, 1);
                        return new_reader;
                    }""", """                    Ok(old) => {
                        fence(Ordering::SeqCst);
                        manager.free(old, 1);
                        return new_reader;
                    }""")], kind='refactor'),
    V('rf-remove-token-scope-fn', None, [], [E(MEM, """        {
            let mut inner = self.mem_manager.lock().unwrap();
            inner.remove_token(token);
        }""", """        let inner = self.mem_manager.lock();
        let mut inner = inner.unwrap();
        inner.remove_token(token);
        drop(inner);""")], kind='refactor'),

    V('mode-decided-after-position', 'C12', ['P5d'], [E(RC, """        if self.state.get() == ReaderState::Multi
            && unsafe { (*self.meta).num_consumers.load(Ordering::Relaxed) } == 1
        {
            fence(Ordering::Acquire);
            self.state.set(ReaderState::Single);
        }
        unsafe {
            ReadAttempt {
                linked: (*self.pos).pos_data.load_transaction(ord),
                state: self.state.get(),
            }
        }""", """        let linked = unsafe { (*self.pos).pos_data.load_transaction(ord) };
        if self.state.get() == ReaderState::Multi
            && unsafe { (*self.meta).num_consumers.load(Ordering::Relaxed) } == 1
        {
            fence(Ordering::Acquire);
            self.state.set(ReaderState::Single);
        }
        ReadAttempt {
            linked,
            state: self.state.get(),
        }""")]),
    V('valid-wrap-or-one', 'C03', ['P15'], [E('src/countedindex.rs', """    } else if val == 0 {
        1
    } else {
        val.next_power_of_two()
    }""", """    } else {
        (val | 1).next_power_of_two()
    }""")]),
    V('rf-valid-wrap-max', None, [], [E('src/countedindex.rs', """    } else if val == 0 {
        1
    } else {
        val.next_power_of_two()
    }""", """    } else {
        ::std::cmp::max(val, 1).next_power_of_two()
    }""")], kind='refactor'),

    V('mask-is-wrap', 'C03', ['P15m'], [E('src/countedindex.rs', """            val: AtomicUsize::new(val),
            mask: (wrap - 1) as usize,""", """            val: AtomicUsize::new(val),
            mask: (wrap | 1) as usize - 1 + (wrap as usize & 0),""")]),
    V('get-previous-plus', 'C03', ['P15m'], [E('src/countedindex.rs', "start.wrapping_sub(by as usize)", "start.wrapping_sub(by as usize).wrapping_add(1)")]),
    V('commit-no-rm-tag', 'C01', ['P15m'], [E('src/countedindex.rs', """        let store_val = rm_tag(self.loaded_vals.wrapping_add(by as usize));
        self.ptr.store(store_val, ord);""", """        let store_val = self.loaded_vals.wrapping_add(by as usize);
        self.ptr.store(store_val, ord);""")]),
    V('reload-tail-from-cache', 'C03', ['P15m', 'P1b'], [E(MQ, """        let current_tail = CountedIndex::get_previous(count, max_diff_from_head);
        self.tail_cache.store(current_tail, Relaxed);
        current_tail""", """        let current_tail = CountedIndex::get_previous(self.tail_cache.load(Relaxed).wrapping_add(self.capacity as usize), max_diff_from_head);
        self.tail_cache.store(current_tail, Relaxed);
        current_tail""")]),
    V('rf-mask-written-differently', None, [], [E('src/countedindex.rs', """            val: AtomicUsize::new(val),
            mask: (wrap - 1) as usize,""", """            val: AtomicUsize::new(val),
            mask: wrap as usize - 1,""")], kind='refactor'),

    V('poll-park-no-prod-notify', 'C14', ['P11h'], [E(MQ, """                        self.prod_wait.notify_all();
                        return Ok(Async::NotReady);""", """                        return Ok(Async::NotReady);""")]),

    V('set-epoch-swap', 'C13', ['W10'], [E('src/atomicsignal.rs', "let prev = self.flags.fetch_or(UPDATE_EPOCH, ord);", "let prev = self.flags.swap(UPDATE_EPOCH, ord);")]),
    V('uniiter-nonblocking', 'C07', ['S3'], [E('src/broadcast.rs', """impl<R, F: FnMut(&T) -> R, T: Clone + Sync> Iterator for BroadcastUniIter<R, F, T> {
    type Item = R;

    #[inline(always)]
    fn next(&mut self) -> Option<R> {
        let opref = &mut self.op;
        match self.recv.recv_view(|v| opref(v)) {""", """impl<R, F: FnMut(&T) -> R, T: Clone + Sync> Iterator for BroadcastUniIter<R, F, T> {
    type Item = R;

    #[inline(always)]
    fn next(&mut self) -> Option<R> {
        let opref = &mut self.op;
        match self.recv.try_recv_view(|v| opref(v)) {""")]),

    V('free-complete-only-small-backlog', 'C17', ['P12f'], [E(MEM, """        {
            let _lock = self.mem_manager.try_lock().map(|mut inner| {
                let epoch = self.epoch.load(Ordering::SeqCst);
                if inner.try_freeing(epoch) {
                    self.signal.clear_epoch(Ordering::Release);
                }
            });
        }
        if elemvec.len() > 20 {
            self.start_free(&mut elemvec);
        }""", """        if elemvec.len() > 20 {
            self.start_free(&mut elemvec);
        } else {
            let _lock = self.mem_manager.try_lock().map(|mut inner| {
                let epoch = self.epoch.load(Ordering::SeqCst);
                if inner.try_freeing(epoch) {
                    self.signal.clear_epoch(Ordering::Release);
                }
            });
        }""")]),
    V('check-no-past', 'C08', ['P7h'], [E(WAIT, "wc.load(Relaxed) == 0 || (!is_tagged(raw) && (seq == cur_count || past(seq, cur_count).1))", "wc.load(Relaxed) == 0 || (!is_tagged(raw) && seq == cur_count)")]),
    V('clear-epoch-swap-zero', 'C13', ['W10'], [E('src/atomicsignal.rs', "let prev = self.flags.fetch_and(!UPDATE_EPOCH, ord);", "let prev = self.flags.swap(0, ord);")]),
    V('fut-tryrecv-wrong-list', 'C15', ['P11d'], [E(MQ, """        let rval = self.reader.try_recv();
        self.prod_wait.notify_all();
        rval""", """        let rval = self.reader.try_recv();
        self.wait.notify_all();
        rval""")]),
    V('mpmc-unirecv-sync-impl', 'C19', [], [E('src/mpmc.rs', "unsafe impl<T: Send> Send for MPMCUniReceiver<T> {}", "unsafe impl<T: Send> Sync for MPMCUniReceiver<T> {}")]),

    V('free-epoch-read-early', 'C16', ['P12f'], [E(MEM, """        elemvec.push(ToFree::new(pt, num));
        {
            let _lock = self.mem_manager.try_lock().map(|mut inner| {
                let epoch = self.epoch.load(Ordering::SeqCst);
                if inner.try_freeing(epoch) {""", """        elemvec.push(ToFree::new(pt, num));
        let epoch = self.epoch.load(Ordering::SeqCst);
        if elemvec.len() > 20 {
            self.start_free(&mut elemvec);
        }
        {
            let _lock = self.mem_manager.try_lock().map(|mut inner| {
                if inner.try_freeing(epoch) {""")]),
    V('wrap-at-npot', 'C10', ['P15m'], [E('src/countedindex.rs', "        self.mask as Index + 1", "        (self.mask as Index).next_power_of_two()")]),

    # ---------------------------------------------------------------- rules_extra2
    V('dealloc-len-n', 'C05', ['P13e'], [E('src/alloc.rs', "Vec::from_raw_parts(tofree, 0, num);", "Vec::from_raw_parts(tofree, num, num);")]),
    V('get-token-epoch-zero', 'C17', ['P12k'], [E(MEM, "inner.get_token(self.epoch.load(Ordering::Acquire))", "inner.get_token(self.epoch.load(Ordering::Acquire) & 0)")]),
    V('remove-token-retain-eq', 'C16', ['P12k'], [E(MEM, "self.tokens.retain(|x| *x != token);", "self.tokens.retain(|x| *x == token);")]),
    V('ctor-ignores-waiter', 'C08', ['S3'], [E('src/mpmc.rs', "let (send, recv) = MultiQueue::<MPMC<T>, T>::create_tx_rx_with(capacity, w);", "let _ = w;\n    let (send, recv) = MultiQueue::<MPMC<T>, T>::create_tx_rx_with(capacity, crate::wait::BusyWait::new());")]),
    V('ctor-capacity-plus-one', 'C03', ['S3'], [E('src/broadcast.rs', "MultiQueue::<BCast<T>, T>::create_tx_rx(capacity)", "MultiQueue::<BCast<T>, T>::create_tx_rx(capacity + 1)")]),
    V('byvalue-sink-swallows', 'C15', ['S3'], [E(MQ, """    #[inline(always)]
    fn start_send(&mut self, msg: T) -> StartSend<T, SendError<T>> {
        (&*self).start_send(msg)
    }

    #[inline(always)]
    fn poll_complete(&mut self) -> Poll<(), SendError<T>> {
        (&*self).poll_complete()
    }
}

impl<RW: QueueRW<T>, T> Stream for &FutInnerRecv<RW, T> {""", """    #[inline(always)]
    fn start_send(&mut self, msg: T) -> StartSend<T, SendError<T>> {
        match (&*self).start_send(msg) {
            Err(SendError(m)) => Ok(AsyncSink::NotReady(m)),
            other => other,
        }
    }

    #[inline(always)]
    fn poll_complete(&mut self) -> Poll<(), SendError<T>> {
        (&*self).poll_complete()
    }
}

impl<RW: QueueRW<T>, T> Stream for &FutInnerRecv<RW, T> {""")]),
    V('initial-consumers-two', 'C12', ['P15i'], [E(RC, """            ReaderMeta {
                num_consumers: AtomicUsize::new(1),
            },""", """            ReaderMeta {
                num_consumers: AtomicUsize::new(2),
            },""")]),
    V('rf-dealloc-named', None, [], [E('src/alloc.rs', """    unsafe {
        Vec::from_raw_parts(tofree, 0, num);
    }""", """    let v = unsafe { Vec::from_raw_parts(tofree, 0, num) };
    drop(v);""")], kind='refactor'),
    V('rf-checkref-early-return', None, [], [E(MQ, """    fn check_ref(r: &AtomicUsize) -> bool {
        r.load(Relaxed) == 0
    }""", """    fn check_ref(r: &AtomicUsize) -> bool {
        if r.load(Relaxed) != 0 {
            return false;
        }
        true
    }""")], kind='refactor'),
    V('rf-checkref-match', None, [], [E(MQ, """    fn check_ref(r: &AtomicUsize) -> bool {
        r.load(Relaxed) == 0
    }""", """    fn check_ref(r: &AtomicUsize) -> bool {
        match r.load(Relaxed) {
            0 => true,
            _ => false,
        }
    }""")], kind='refactor'),
    V('rf-checkref-zst-shortcut', None, [], [E(MQ, """    fn check_ref(r: &AtomicUsize) -> bool {
        r.load(Relaxed) == 0
    }""", """    fn check_ref(r: &AtomicUsize) -> bool {
        let pinned = r.load(Relaxed) != 0;
        if pinned && mem::needs_drop::<T>() {
            return false;
        }
        !pinned
    }""")], kind='refactor'),
    V('bcast-pin-skipped-nodrop', 'C04', ['P3c', 'P3b', 'S1'], [E(MQ, """    fn inc_ref(r: &AtomicUsize) {
        r.fetch_add(1, atomic_utilities::fence_rmw::RMWOrder);
        atomic_utilities::fence_rmw::fence_rmw();
    }""", """    fn inc_ref(r: &AtomicUsize) {
        if mem::needs_drop::<T>() {
            r.fetch_add(1, atomic_utilities::fence_rmw::RMWOrder);
            atomic_utilities::fence_rmw::fence_rmw();
        }
    }""")]),
    V('yielding-wait-zero-spins-hang', 'C08', ['P7i'], [E('src/wait.rs', """            yield_now();
            // checked after every yield, so the wait also ends when spins_yield is 0
            if check(seq, w_pos, wc) {
                return;
            }
            for _ in 0..self.spins_yield {""", """            yield_now();
            for _ in 0..self.spins_yield {""")]),
    V('rf-yielding-wait-do-while', None, [], [E('src/wait.rs', """            yield_now();
            // checked after every yield, so the wait also ends when spins_yield is 0
            if check(seq, w_pos, wc) {
                return;
            }
            for _ in 0..self.spins_yield {
                if check(seq, w_pos, wc) {
                    return;
                }
            }""", """            yield_now();
            let mut spun = 0;
            loop {
                if check(seq, w_pos, wc) {
                    return;
                }
                spun += 1;
                if spun >= self.spins_yield {
                    break;
                }
            }""")], kind='refactor'),
    V('busy-wait-pause-without-check', 'C08', ['P7i'], [E('src/wait.rs', """impl Wait for BusyWait {
    #[cold]
    fn wait(&self, seq: usize, w_pos: &AtomicUsize, wc: &AtomicUsize) {
        loop {
            if check(seq, w_pos, wc) {
                return;
            }
        }""", """impl Wait for BusyWait {
    #[cold]
    fn wait(&self, seq: usize, w_pos: &AtomicUsize, wc: &AtomicUsize) {
        if check(seq, w_pos, wc) {
            return;
        }
        loop {
            if wc.load(Relaxed) == 0 {
                return;
            }
        }""")]),
    V('fut-add-stream-with-clones', 'C10', ['P10h'], [E(MQ, """    pub fn add_stream_with<Q, FQ: FnMut(&T) -> Q>(&self, op: FQ) -> FutInnerUniRecv<RW, Q, FQ, T> {
        let rx = self.reader.add_stream();""", """    pub fn add_stream_with<Q, FQ: FnMut(&T) -> Q>(&self, op: FQ) -> FutInnerUniRecv<RW, Q, FQ, T> {
        let rx = self.reader.clone();""")]),
    V('fut-into-single-adds-stream', 'C05', ['P10h', 'P9g'], [E(MQ, """            new_mreader = self.reader.clone();
            drop(self);""", """            new_mreader = self.reader.add_stream();
            drop(self);""")]),
    V('fut-clone-adds-stream', 'C09', ['P10h'], [E(MQ, """impl<RW: QueueRW<T>, T> Clone for FutInnerRecv<RW, T> {
    fn clone(&self) -> FutInnerRecv<RW, T> {
        FutInnerRecv {
            reader: self.reader.clone(),""", """impl<RW: QueueRW<T>, T> Clone for FutInnerRecv<RW, T> {
    fn clone(&self) -> FutInnerRecv<RW, T> {
        FutInnerRecv {
            reader: self.reader.add_stream(),""")]),
    V('rf-fut-add-stream-qualified', None, [], [E(MQ, """    pub fn add_stream(&self) -> FutInnerRecv<RW, T> {
        let rx = self.reader.add_stream();
        FutInnerRecv {
            reader: rx,""", """    pub fn add_stream(&self) -> FutInnerRecv<RW, T> {
        FutInnerRecv {
            reader: InnerRecv::add_stream(&self.reader),""")], kind='refactor'),
    V('yielding-wait-slot-only-in-yield-phase', 'C07', ['P7i'], [E('src/wait.rs', """            yield_now();
            // checked after every yield, so the wait also ends when spins_yield is 0
            if check(seq, w_pos, wc) {
                return;
            }
            for _ in 0..self.spins_yield {
                if check(seq, w_pos, wc) {
                    return;
                }
            }""", """            yield_now();
            // only the slot itself is polled between two yields
            let raw = w_pos.load(Relaxed);
            if !is_tagged(raw) && (seq == rm_tag(raw) || past(seq, rm_tag(raw)).1) {
                return;
            }
            for _ in 0..self.spins_yield {
                let raw = w_pos.load(Relaxed);
                if !is_tagged(raw) && (seq == rm_tag(raw) || past(seq, rm_tag(raw)).1) {
                    return;
                }
            }""")]),
    V('fut-unsubscribe-early-silent', 'C11', ['P11i'], [E(MQ, """    /// Identical to InnerRecv::unsubscribe()
    pub fn unsubscribe(self) -> bool {
        self.reader.reader.get_consumers() == 1
    }
}

/// This struct acts as a UniInnerRecv""", """    /// Identical to InnerRecv::unsubscribe()
    pub fn unsubscribe(mut self) -> bool {
        let last = self.reader.is_single();
        unsafe { self.reader.do_unsubscribe_with(|| ()) }
        last
    }
}

/// This struct acts as a UniInnerRecv""")]),
    V('rf-fut-unsubscribe-early-notifying', None, [], [E(MQ, """    /// Identical to InnerRecv::unsubscribe()
    pub fn unsubscribe(self) -> bool {
        self.reader.reader.get_consumers() == 1
    }
}

/// This struct acts as a UniInnerRecv""", """    /// Identical to InnerRecv::unsubscribe()
    pub fn unsubscribe(mut self) -> bool {
        let last = self.reader.reader.get_consumers() == 1;
        let prod_wait = self.prod_wait.clone();
        unsafe { self.reader.do_unsubscribe_with(|| prod_wait.notify()) }
        last
    }
}

/// This struct acts as a UniInnerRecv""")], kind='refactor'),
    V('fut-unsubscribe-double-decrement', 'C01', ['W7', 'P9f'], [E(MQ, """    /// Identical to InnerRecv::unsubscribe()
    pub fn unsubscribe(self) -> bool {
        self.reader.reader.get_consumers() == 1
    }
}

/// This struct acts as a UniInnerRecv""", """    /// Identical to InnerRecv::unsubscribe()
    pub fn unsubscribe(self) -> bool {
        self.reader.reader.remove_consumer() == 1
    }
}

/// This struct acts as a UniInnerRecv""")]),
    V('fut-spin-zero-trips-means-ready', 'C15', ['P7j'], [E(MQ, """        for _ in 0..self.spins_first {
            if check(seq, at, wc) {
                return false;
            }
        }

        for _ in 0..self.spins_yield {
            yield_now();
            if check(seq, at, wc) {
                return false;
            }
        }
        true
    }""", """        let mut pending = false;
        for i in 0..self.spins_first + self.spins_yield {
            if i >= self.spins_first {
                yield_now();
            }
            pending = !check(seq, at, wc);
            if !pending {
                break;
            }
        }
        pending
    }""")]),
    V('recv-pin-cell-hoisted-out-of-retry-loop', 'C04', ['P3b'], [E(MQ, """        let is_single = reader.is_single();
        unsafe {
            loop {""", """        let is_single = reader.is_single();
        unsafe {
            let ref_cell = &*self.refs.offset(ctail_attempt.get().0);
            loop {"""), E(MQ, """                let ref_cell = &*self.refs.offset(ctail);
                if !is_single {""", """                if !is_single {""")]),
    V('try-send-allocates-in-rescan', 'C18', ['P14'], [E(MQ, """        let max_diff_from_head = self.tail.get_max_diff(count).expect(
            "The write head got ran over by consumers in single writer mode. This \\
             process is borked!",
        );""", """        let max_diff_from_head = self.tail.get_max_diff(count).expect(&format!(
            "The write head (at {} of {}) got ran over by consumers in single writer mode. This \\
             process is borked!",
            count, self.capacity
        ));""")]),
    V('streamlist-capacity-inherited', 'C17', ['P13f'], [E(RC, """        let mut new_readers = self.readers.clone();
        new_readers.push(new_pos as *const ReaderPos);""", """        let mut new_readers = Vec::with_capacity(self.readers.capacity() + 1);
        new_readers.extend_from_slice(&self.readers);
        new_readers.push(new_pos as *const ReaderPos);"""), E(RC, """        let mut new_readers = self.readers.clone();
        new_readers.retain(|pt| *pt != reader);""", """        let mut new_readers = Vec::with_capacity(self.readers.capacity());
        new_readers.extend(self.readers.iter().filter(|pt| **pt != reader));""")]),
    V('rf-streamlist-sized-by-len', None, [], [E(RC, """        let mut new_readers = self.readers.clone();
        new_readers.push(new_pos as *const ReaderPos);""", """        let mut new_readers = Vec::with_capacity(self.readers.len() + 1);
        new_readers.extend_from_slice(&self.readers);
        new_readers.push(new_pos as *const ReaderPos);""")], kind='refactor'),
    V('drop-recv-skips-unsubscribe-when-panicking', 'C11', ['P9a'], [E(MQ, """impl<RW: QueueRW<T>, T> Drop for InnerRecv<RW, T> {
    fn drop(&mut self) {
        unsafe { self.do_unsubscribe_with(|| ()) }
    }
}""", """impl<RW: QueueRW<T>, T> Drop for InnerRecv<RW, T> {
    fn drop(&mut self) {
        if !::std::thread::panicking() {
            unsafe { self.do_unsubscribe_with(|| ()) }
        }
    }
}""")]),
    # ---- round 6 (refactoring commits with a slip): clauses added for the misses
    V('into-multi-forgets-handle', 'C17', ['P13g'], [E(MQ, """        let new_reader = self.reader.add_stream();
        FutInnerRecv {
            reader: new_reader,
            wait: self.wait.clone(),
            prod_wait: self.prod_wait.clone(),
        }
    }
}
""", """        let new_reader = self.reader.add_stream();
        let out = FutInnerRecv {
            reader: new_reader,
            wait: self.wait.clone(),
            prod_wait: self.prod_wait.clone(),
        };
        // the old handle is taken apart by hand; its two Arc<FutWait> are forgotten with it
        let mut this = mem::ManuallyDrop::new(self);
        unsafe {
            ptr::drop_in_place(&mut this.reader);
            ptr::drop_in_place(&mut this.op);
        }
        out
    }
}
""")], note='the forgotten FutInnerUniRecv keeps its two Arc<FutWait> strong counts: the wait objects are never freed'),
    V('sink-attempt-skips-signals', 'C13', ['P11a'], [E(MQ, """            .send_or_park(|m| self.writer.try_send(m), msg)""",
                                                         """            .send_or_park(|m| self.writer.queue.try_send_multi(m), msg)""")],
      note='the sink attempt never looks at the no-reader signal: the Disconnected arm of start_send is dead, a send after the last receiver left is accepted'),
    V('futwait-needs-notify-false', 'C15', ['P7c'], [E(MQ, """    fn needs_notify(&self) -> bool {
        true
    }
}""", """    fn needs_notify(&self) -> bool {
        false
    }
}""")], note='try_send on a futures queue no longer wakes parked Stream tasks'),
    V('fut-recv-notify-under-consumer-lock', 'C15', ['P7k'], [E(MQ, """        let rval = self.reader.try_recv();
        self.prod_wait.notify_all();
        rval
    }
""", """        let rval = self.reader.try_recv();
        let consumers = self.wait.parked.lock();
        self.prod_wait.notify_all();
        drop(consumers);
        rval
    }
""")], note='lock order inversion: producers are notified (producer list lock) under the consumer list lock, the sink does its last attempt (which notifies consumers) under the producer list lock'),
    # ---- gaps found by the mechanical mutation sweep (tools/mutsweep.py): one-line changes no check and no test noticed
    V('recv-retry-without-reload', 'C18', ['P3b'], [E(MQ, """                        RW::dec_ref(&ref_cell.refcnt);
                        ctail_attempt = ctail_attempt.reload();
                        continue;""", """                        RW::dec_ref(&ref_cell.refcnt);
                        continue;""")], note='after a failed re-check the same stale attempt is retried for ever: try_recv never returns'),
    V('park-reports-not-parked', 'C15', ['P7d'], [E(MQ, """        parked.push_back(current());
        true
    }""", """        parked.push_back(current());
        false
    }""")], note='the task is registered but fut_wait says retry: poll loops inside the call'),
    V('notify-drains-without-notifying', 'C14', ['P7c'], [E(MQ, """                for val in parked.drain(..) {
                    val.notify();
                }
            } else {""", """                for val in parked.drain(..) {
                    drop(val);
                }
            } else {""")], note='more than eight parked tasks are taken out of the list and dropped without a wake-up'),
    V('notify-small-list-not-drained', 'C14', ['P7c'], [E(MQ, """                inline_v.extend(parked.drain(..));
                drop(parked);""", """                drop(parked);""")], note='up to eight parked tasks are never woken'),
    V('teardown-loop-condition-flipped', 'C05', ['P13c'], [E(MQ, """            while last_read.load_count(Relaxed) != self.head.load_count(Relaxed) {""",
                                                             """            while last_read.load_count(Relaxed) == self.head.load_count(Relaxed) {""")],
      note='unconsumed values of a move-out queue are leaked at teardown'),
    V('remove-reader-leaks-meta', 'C17', ['P10d'], [E(RC, """                        mem.free(reader.pos as *mut ReaderPos, 1);
                        alloc::deallocate(reader.meta as *mut ReaderMeta, 1);""", """                        mem.free(reader.pos as *mut ReaderPos, 1);""")],
      note='one consumer-counter block leaks per removed stream'),
    V('add-stream-fail-leaks-list-buffer', 'C17', ['P10c'], [E(RC, """                        fence(Ordering::Acquire);
                        ptr::read(new_group);
                        alloc::deallocate(new_reader.meta as *mut ReaderMeta, 1);""", """                        fence(Ordering::Acquire);
                        alloc::deallocate(new_reader.meta as *mut ReaderMeta, 1);""")],
      note='a lost CAS deallocates the unpublished group without dropping its Vec: the list buffer leaks'),
]

# behaviour-preserving patches written by independent sub-agents (tools/eval_refactors.sh, DESIGN 12.9): every check
# must stay silent on each of them
import glob as _glob
import os as _os
for _f in sorted(_glob.glob(_os.path.join(_os.path.dirname(_os.path.dirname(_os.path.abspath(__file__))), 'refactors', '*.diff'))):
    VARIANTS.append({'id': 'rfp-' + _os.path.basename(_f)[:-5], 'property': None, 'expect': [], 'edits': [], 'patch': _f,
                     'kind': 'refactor', 'note': 'sub-agent refactor'})

# a seeded change used as a violating variant (the unwind-path rule P3u has no one-line form)
VARIANTS.append({'id': 'view-guard-around-closure', 'property': 'C05', 'expect': ['P3u'], 'edits': [], 'kind': 'violating',
                 'patch': _os.path.join(_os.path.dirname(_os.path.dirname(_os.path.abspath(__file__))), 'seeded', 'C05-r7', 'patch.diff'),
                 'note': 'an RAII guard that destroys the viewed payload is alive while the view closure runs: an unwinding closure destroys the value without consuming it'})

# repaired forms of the known finding F12 (the rule must be able to pass): the parent position is read again after the
# publication and the stream is only handed out if it did not move (otherwise the new stream is taken out again and the
# call starts over)
VARIANTS.append({'id': 'repair-f12-revalidate', 'property': 'C10', 'expect': [], 'kind': 'repair',
                 'fixes': ['P10a|ReadCursor::add_stream|ReadCursor::add_stream|snapshot-valid'],
                 'edits': [E(RC, """                    Ok(_) => {
                        fence(Ordering::SeqCst);
                        manager.free(current_ptr, 1);
                        return new_reader;
                    }""", """                    Ok(_) => {
                        fence(Ordering::SeqCst);
                        manager.free(current_ptr, 1);
                        if (*reader.pos).pos_data.load_raw(Ordering::Relaxed) == raw {
                            return new_reader;
                        }
                        // (a real repair takes the new stream out again and starts over; the sketch only has to show
                        // the shape the rule looks for)
                        panic!("the parent stream moved while the new stream was not visible");
                    }""")],
                 'note': 'sketch of a repair (not claimed to be complete): shows that the rule accepts a re-validation after the publication'})

# round-8 misses: seeded changes used as violating variants for the clauses added for them
for (_vid, _prop, _rules, _seed, _note) in (
        ('uni-set-after-attempt', 'C06', ['P2b'], 'C06-r8', 'state:=Uni stored after the single-writer attempt (re-entrant clone from a payload destructor is overwritten)'),
        ('check-past-args-swapped', 'C09', ['P7h'], 'C09-r8', 'past(cur_count, seq) in wait::check(): an old-lap tag counts as ahead'),
        ('consumer-count-u16', 'C12', ['W7'], 'C12-r8', 'ReaderMeta.num_consumers narrowed to AtomicU16')):
    VARIANTS.append({'id': _vid, 'property': _prop, 'expect': _rules, 'edits': [], 'kind': 'violating', 'note': _note,
                     'patch': _os.path.join(_os.path.dirname(_os.path.dirname(_os.path.abspath(__file__))), 'seeded', _seed, 'patch.diff')})

# round-9 misses
for (_vid, _prop, _rules, _seed, _note) in (
        ('max-diff-u16', 'C06', ['P15n'], 'C06-r9', 'the stream scan accumulates the largest lag in a u16'),
        ('start-free-needs-quiet-signal', 'C17', ['P12f'], 'C17-r9', 'a new reclamation cycle only when the signal word is clear (never again once the no-reader bit is set)'),
        ('recheck-count-vs-index', 'C18', ['P14'], 'C18-r9', 'try_recv re-checks the position against the masked slot index and retries'),
        ('recv-view-ends-on-writers-zero', 'C01', ['P6b'], 'C01-r9', 'recv_view reports the end on writers==0 without looking at the slot again')):
    VARIANTS.append({'id': _vid, 'property': _prop, 'expect': _rules, 'edits': [], 'kind': 'violating', 'note': _note,
                     'patch': _os.path.join(_os.path.dirname(_os.path.dirname(_os.path.abspath(__file__))), 'seeded', _seed, 'patch.diff')})

# violating edits on top of a refactoring that turned the `is_single` bool into a two-valued enum (refactors/recv6-4): the
# loop-invariant flag is specialised per value (core._thread_jumps); the pin/unpin rules must still see the slips
_RF = _os.path.join(_os.path.dirname(_os.path.dirname(_os.path.abspath(__file__))), 'refactors')
VARIANTS.append({'id': 'enumflag-unpin-wrong-mode', 'property': 'C02', 'expect': ['P3b'], 'kind': 'violating', 'patch': _os.path.join(_RF, 'recv6-4.diff'),
                 'edits': [E(MQ, """                fence(Release);
                if access == SlotAccess::Shared {
                    RW::dec_ref(&ref_cell.refcnt);""", """                fence(Release);
                if access == SlotAccess::Exclusive {
                    RW::dec_ref(&ref_cell.refcnt);""")],
                 'note': 'after the bool -> enum refactoring the unpin is done in the wrong mode: a shared receive keeps the slot pinned'})
VARIANTS.append({'id': 'enumflag-mode-swapped', 'property': 'C02', 'expect': ['P3b', 'P3c'], 'kind': 'violating', 'patch': _os.path.join(_RF, 'recv6-4.diff'),
                 'edits': [E(MQ, """        let access = if reader.is_single() {
            SlotAccess::Exclusive
        } else {
            SlotAccess::Shared
        };""", """        let access = if reader.is_single() {
            SlotAccess::Shared
        } else {
            SlotAccess::Exclusive
        };""")],
                 'note': 'after the bool -> enum refactoring the two modes are swapped: shared consumers copy without the pin'})

# ---- round 10 (feature / bug-fix commits): seeded patches as violating variants of the rules they produced, and their
# repaired forms as behaviour-preserving twins
_SEED = _os.path.join(_os.path.dirname(_os.path.dirname(_os.path.abspath(__file__))), 'seeded')
BC = 'src/broadcast.rs'
for (_id, _seed, _prop, _exp, _note) in [
        ('r10-peek-stash', 'C02-r10', 'C02', ['S6'], 'a peeked value parked in the receive handle'),
        ('r10-peek-ref-escapes', 'C04-r10', 'C04', ['P4r'], 'try_peek returns a reference into the slot'),
        ('r10-shared-stream-count', 'C11-r10', 'C11', ['P5n'], 'a stream published with n registered consumers and n-1 clones registering again'),
        ('r10-replay-start', 'C03-r10', 'C03', ['P10a'], 'start position handed in by the caller (tail cache snapshot)'),
        ('r10-futiter-quiet-recv', 'C14-r10', 'C14', ['P11d'], 'a new iterator over a futures receiver that does not wake producers per element'),
        ('r10-user-code-in-list-walk', 'C16-r10', 'C16', ['P12u'], 'user closure called while the stream list is walked'),
        ('r10-stored-result-not-send', 'C19-r10', 'C19', ['W19'], 'a closure result stored in a handle whose unsafe impl Send does not bound it')]:
    VARIANTS.append({'id': _id, 'property': _prop, 'expect': _exp, 'edits': [], 'kind': 'violating',
                     'patch': _os.path.join(_SEED, _seed, 'patch.diff'), 'note': _note})
VARIANTS.append({'id': 'r10fix-shared-stream-one', 'property': None, 'expect': [], 'kind': 'refactor', 'patch': _os.path.join(_SEED, 'C11-r10', 'patch.diff'),
                 'edits': [E(MQ, ".add_stream(&self.reader, &self.queue.manager, consumers),", ".add_stream(&self.reader, &self.queue.manager, 1),")],
                 'note': 'add_shared_stream repaired: the stream starts with one consumer, every clone registers itself'})
VARIANTS.append({'id': 'r10fix-list-walk-then-call', 'property': None, 'expect': [], 'kind': 'refactor', 'patch': _os.path.join(_SEED, 'C16-r10', 'patch.diff'),
                 'edits': [E(RC, """            let rg = &*self.readers.load(CONSUME);
            for reader_ptr in &rg.readers {
                let rpos = (**reader_ptr).pos_data.load_count(MAYBE_ACQUIRE);
                // A stream that is already past the sampled head has read everything
                let (diff, tofar) = past(cur_writer, rpos);
                f(if tofar { 0 } else { diff });
            }""", """            let rg = &*self.readers.load(CONSUME);
            let mut diffs = Vec::with_capacity(rg.readers.len());
            for reader_ptr in &rg.readers {
                let rpos = (**reader_ptr).pos_data.load_count(MAYBE_ACQUIRE);
                // A stream that is already past the sampled head has read everything
                let (diff, tofar) = past(cur_writer, rpos);
                diffs.push(if tofar { 0 } else { diff });
            }
            for d in diffs {
                f(d);
            }""")],
                 'note': 'for_each_stream repaired: the distances are collected during the walk, the user closure runs after it'})
VARIANTS.append({'id': 'r10fix-futiter-notifying', 'property': None, 'expect': [], 'kind': 'refactor', 'patch': _os.path.join(_SEED, 'C14-r10', 'patch.diff'),
                 'edits': [E(BC, """        match self.recv.receiver.try_recv_batched() {
            Ok(val) => Some(val),
            Err(_) => {
                self.recv.receiver.wake_producers();
                None
            }
        }""", """        self.recv.receiver.try_recv().ok()""")],
                 'note': 'try_iter of the futures receiver repaired: every element is received through the notifying try_recv'})


# ---- round 11 (feature / bug-fix commits, second batch)
MP = 'src/mpmc.rs'
for (_id, _seed, _prop, _exp, _note) in [
        ('r11-batch-recv-keeps-lost-copy', 'C01-r11', 'C01', ['W3s', 'W1s'], 'a batched receive with a protocol of its own (values copied before a lost position CAS stay in the output)'),
        ('r11-soft-capacity-window', 'C02-r11', 'C02', ['P1h'], 'the window of the fullness test read from a run-time limit'),
        ('r11-view-batch-one-tag', 'C04-r11', 'C04', ['W3s'], 'a batched view that checks only the newest slot tag'),
        ('r11-batch-recv-pin-leak', 'C06-r11', 'C06', ['W3s', 'W1s'], 'a batched receive whose pin helper keeps the pin on the stale path'),
        ('r11-zip-left-drops-one', 'C09-r11', 'C09', ['S7'], 'try_iter().zip(0..max) pulls one value more than it delivers'),
        ('r11-sink-park-memo', 'C15-r11', 'C15', ['P7c'], 'the sink skips the registration when the handle parked in this wake-up round'),
        ('r11-monitor-shares-queue', 'C19-r11', 'C19', ['W19'], 'a new handle type holds Arc<MultiQueue> and is auto Send + Sync')]:
    VARIANTS.append({'id': _id, 'property': _prop, 'expect': _exp, 'edits': [], 'kind': 'violating',
                     'patch': _os.path.join(_SEED, _seed, 'patch.diff'), 'note': _note})
VARIANTS.append({'id': 'r11fix-zip-right', 'property': None, 'expect': [], 'kind': 'refactor', 'patch': _os.path.join(_SEED, 'C09-r11', 'patch.diff'),
                 'edits': [E(BC, "buf.extend(self.try_iter().zip(0..max).map(|(val, _)| val));", "buf.extend((0..max).zip(self.try_iter()).map(|(_, val)| val));"),
                           E(MP, "buf.extend(self.try_iter().zip(0..max).map(|(val, _)| val));", "buf.extend((0..max).zip(self.try_iter()).map(|(_, val)| val));")],
                 'note': 'try_recv_many repaired: the counter is on the left of the zip, the receive iterator is only pulled when a value will be delivered'})

# ---- round 12 (performance / defensive / type-level commits)
for (_id, _seed, _prop, _exp, _note) in [
        ('r12-view-bound-not-hrtb', 'C04-r12', 'C04', ['P4r'], 'the view closure bound names the method lifetime: the result may contain the &T'),
        ('r12-start-threshold-eq', 'C17-r12', 'C17', ['P12f'], 'a reclamation cycle is started only when the backlog equals a threshold'),
        ('r12-fut-into-blocking', 'C14-r12', 'C14', ['S8'], 'a futures receiver converted into a plain receiver of the same queue'),
        ('r12-uni-deref-multi', 'C01-r12', 'C01', ['S8'], 'Deref from the single-consumer receiver to the multi-consumer one'),
        ('r12-recycled-counter-cell', 'C09-r12', 'C09', ['P5n'], 'a recycled consumer-counter cell is not re-initialised')]:
    VARIANTS.append({'id': _id, 'property': _prop, 'expect': _exp, 'edits': [], 'kind': 'violating',
                     'patch': _os.path.join(_SEED, _seed, 'patch.diff'), 'note': _note})
VARIANTS.append({'id': 'r12-increment-in-debug-assert', 'property': 'C07', 'expect': ['S9'], 'edits': [], 'kind': 'violating',
                 'patch': _os.path.join(_SEED, 'C07-r12', 'patch.diff'), 'note': 'the writer-count increment of Clone for InnerSend written inside debug_assert!'})

# ---- round 13 (held-out round): the three misses that fell to one-line extensions
for (_id, _seed, _prop, _exp, _note) in [
        ('r13-uni-receiver-sync', 'C04-r13', 'C04', ['S8'], 'unsafe impl Sync for the single-consumer receiver'),
        ('r13-start-from-cell-cache', 'C10-r13', 'C10', ['P10a'], 'the new stream starts at a handle-local cached position'),
        ('r13-unsubscribe-ignores-removal', 'C13-r13', 'C13', ['P9f', 'W7'], 'the explicit unsubscribe of a shared-mode handle ignores the result of remove_reader')]:
    VARIANTS.append({'id': _id, 'property': _prop, 'expect': _exp, 'edits': [], 'kind': 'violating',
                     'patch': _os.path.join(_SEED, _seed, 'patch.diff'), 'note': _note})
