"""More structural rules for the plumbing around the core (added before round 4 of seeded changes):
P13e (alloc.rs shapes), P12k (token creation / removal), S3c (constructors forward their arguments),
S3d (by-value Sink/Stream impls and wrapper impls delegate to the base impls), P15i (initial state)."""
import re
from core import CheckError, short, short_fn
from rules_send import FLAVOURS, WRITE_OPS
from rules_extra import _const_of, _norm, _is, _binop
from engine import norm_rel


def run(ctx):
    ctx.step(_p13e, ctx)
    ctx.step(_p12k, ctx)
    ctx.step(_s3c, ctx)
    ctx.step(_s3d, ctx)
    ctx.step(_p15i, ctx)
    ctx.step(_p10h, ctx)
    ctx.step(_p13f, ctx)
    ctx.step(_p13g, ctx)
    ctx.step(_p3u, ctx)
    ctx.step(_p15n, ctx)


def freer_fn(ctx):
    """the type-erased release function of a retired object, found by role: the fn item ToFree::new stores in the
    `freer` field (the reference tree names it ToFree::new::do_free; a tree may hoist or rename it)"""
    m = ctx.F.find_fns(r'^memory::ToFree::new::do_free$')
    if len(m) == 1:
        return m[0]
    g = ctx.graph(ctx.fn1(r'^memory::ToFree::new$'))
    r = g.strip(g.ev_local(g.root_inst, 0))
    if r[0] == 'agg' and 'freer' in r[3]:
        fr_ = g.strip(r[4][r[3].index('freer')])
        if fr_[0] == 'fnc' and fr_[1] in ctx.F.fns:
            return fr_[1]
    raise CheckError("anchor: the function ToFree::new stores in ToFree.freer was not found")


def _p13e(ctx):
    fn = ctx.fn1(r'^alloc::allocate$')
    g = ctx.graph(fn)
    x = g.x
    wc = x.ext_calls(r'Vec(::<.*>)?::with_capacity$')
    # the buffer is leaked on every path: given to mem::forget or wrapped in ManuallyDrop, and never dropped
    fg = [n_ for n_ in x.ext_calls(r'mem::forget$|ManuallyDrop(::<.*>)?::new$') if wc and wc[0] in x.calls_in(g.call_args(n_)[0])]
    vdrops = [n_.id for n_ in g.nodes if n_.id in g.live() and n_.kind == 'block' and n_.term['k'] == 'drop' and wc
              and 'ManuallyDrop' not in n_.term['dty']['s'] and wc[0] in x.calls_in(g.ev_place(n_.inst, n_.term['pl']))]
    ok = len(wc) == 1 and _is(g, g.call_args(wc[0])[0], 'param', 1) and bool(fg) and not vdrops and \
        not (x.reachable_entry(blocked=set(fg)) & set(g.exits)) and wc[0] in x.calls_in(g.ev_local(g.root_inst, 0))
    ctx.add('P13e', 'T-FLOW', fn, ok, 'allocate(n) = buffer of capacity n, leaked (forgotten), its pointer returned' if ok else
            'alloc::allocate does not return the pointer of a forgotten Vec::with_capacity(n)', sub='allocate')
    fn = ctx.fn1(r'^alloc::deallocate$')
    g = ctx.graph(fn)
    x = g.x
    fr = x.ext_calls(r'Vec(::<.*>)?::from_raw_parts$')
    ok = False
    if len(fr) == 1:
        a = g.call_args(fr[0])
        ok = _is(g, a[0], 'param', 1) and _is(g, a[1], 'const', 0) and _is(g, a[2], 'param', 2) and not (x.reachable_entry(blocked=set(fr)) & set(g.exits))
    ctx.add('P13e', 'T-FLOW', fn, ok, 'deallocate(p, n) rebuilds Vec(p, len 0, capacity n): memory returned, no element dropped' if ok else
            'alloc::deallocate does not rebuild the Vec with length 0 and capacity n (a non-zero length drops elements that were already moved out / never written; a wrong capacity frees with the wrong layout)', sub='deallocate')
    # do_free: drop each element once, then deallocate the same count
    fn = freer_fn(ctx)
    g = ctx.graph(fn)
    x = g.x
    de = x.inlined(r'^alloc::deallocate$')
    rd = x.ext_calls(r'(^|::)ptr::(read|drop_in_place)$')
    ok = len(de) == 1 and bool(rd) and _is(g, g.ev_local(g.nodes[de[0]].call['inlined'], 2), 'param', 2) and all(x.reaches(r_, de[0]) for r_ in rd) and \
        not (x.reachable_entry(blocked=set(de)) & set(g.exits))
    rng = any(any(s_ == ('param', g.root_inst, 2) for s_ in g.deep_walk(a)) for a in x.loop_bounds())
    ctx.add('P13e', 'T-FLOW', fn, ok and rng, 'do_free drops the num elements and then deallocates num' if ok and rng else
            'ToFree::do_free does not (drop each of the num elements, then deallocate num)', sub='do_free')
    fn = ctx.fn1(r'^memory::ToFree::new$')
    g = ctx.graph(fn)
    r = g.strip(g.ev_local(g.root_inst, 0))
    ok = False
    if r[0] == 'agg' and set(r[3]) >= {'mem', 'num_param', 'freer'}:
        fr_ = g.strip(r[4][r[3].index('freer')])
        ok = _is(g, r[4][r[3].index('mem')], 'param', 1) and _is(g, r[4][r[3].index('num_param')], 'param', 2) and fr_[0] == 'fnc' and fr_[1] == freer_fn(ctx)
        # the monomorphic freer is instantiated with the pointee type of `val`
        for b in ctx.F.fns[fn]['blocks']:
            for s_ in b['stmts']:
                if s_['k'] == 'assign':
                    for o in [s_['rv'].get('op')] + s_['rv'].get('ops', []):
                        if isinstance(o, dict) and o.get('fn') and o.get('fn') == freer_fn(ctx):
                            ok = ok and o.get('generics') == ['T']
    ctx.add('P13e', 'T-FLOW', fn, ok, 'ToFree::new records (pointer, count, do_free::<T>) of the retired object' if ok else
            'ToFree::new does not record the retired pointer, its count and the freer for its own type', sub='tofree-new')


def _p12k(ctx):
    fn = ctx.fn1(r'^memory::MemoryManager::get_token$')
    g = ctx.graph(fn)
    x = g.x
    toks = x.aggs(r'memory::MemToken::MemToken$')
    locks = [l for l in x.ext_calls(r'Mutex(::<.*>)?::lock$') if any(p_.endswith('MemoryManager.mem_manager') for p_ in g.locpaths(g.call_args(l)[0]))]
    pushes = [n for n in x.ext_calls(r'Vec(::<.*>)?::push$') if any(p_.endswith('MemoryManagerInner.tokens') for p_ in g.locpaths(g.call_args(n)[0]))]
    ok = bool(toks) and bool(locks) and bool(pushes)
    for (nid, si, rv) in toks:
        e = x.agg_expr(nid, si)
        ep = [l for l in x.loads_in(e) if l.on('MemoryManager.epoch')]
        ok = ok and bool(ep) and all(x.dom(set(locks), l.nid) for l in ep) and not [s_ for s_ in g.deep_walk(e) if s_[0] in ('bin', 'un')]
    ok = ok and not (x.reachable_entry(blocked=set(pushes)) & set(g.exits)) and all(x.dom(set(locks), p_) for p_ in pushes)
    # the token returned is the one registered
    ret = x.calls_in(g.ev_local(g.root_inst, 0))
    ok = ok and all(x.calls_in(g.call_args(p_)[1]) & ret for p_ in pushes)
    ctx.add('P12k', 'T-FLOW', fn, ok, 'a new token starts at the current global epoch (read under the manager lock) and is registered in the token list' if ok else
            'get_token does not create the token at the current epoch under the manager lock / does not register exactly that token', sub='get_token')
    # remove_token (the inner helper may or may not exist as a function of its own: everything is read off the graph
    # of the outer MemoryManager::remove_token, where it is inlined)
    fn = ctx.fn1(r'^memory::MemoryManager::remove_token$')
    g = ctx.graph(fn)
    x = g.x
    rets = x.ext_calls(r'Vec(::<.*>)?::retain(_mut)?$')
    pred = False
    for r_ in rets:
        for ci in g.nodes[r_].call['closure_insts']:
            nr_ = norm_rel(g, g.ev_local(ci, 0))
            if nr_ and nr_[0] == 'Eq' and not nr_[3]:
                pred = True
    ok = bool(rets) and pred and not (x.reachable_entry(blocked=set(rets)) & set(g.exits))
    ctx.add('P12k', 'T-FLOW', fn, ok, 'remove_token drops exactly the given token from the list (retain != token)' if ok else
            'remove_token does not keep "every token except the given one"', sub='remove_token')
    fr = x.inlined(r'memory::MemoryManager::free$')
    rm = rets
    up = x.inlined(r'memory::MemoryManager::update_token$')
    ok = bool(fr) and bool(rm) and bool(up) and all(x.dom(set(rm), f_) for f_ in fr) and all(x.dom(set(up), r_) for r_ in rm) and \
        all(_is(g, g.ev_local(g.nodes[f_].call['inlined'], 2), 'param', 2) or any(s_ == ('param', g.root_inst, 2) for s_ in g.deep_walk(g.ev_local(g.nodes[f_].call['inlined'], 2))) for f_ in fr)
    ctx.add('P12k', 'T-DOM', fn, ok, 'remove_token: announce -> unregister -> retire the token object through the deferred path' if ok else
            'MemoryManager::remove_token does not (announce, unregister, then retire the same token through free())', sub='remove-order')


CTOR_FORWARD = [
    (r'^broadcast::broadcast_queue$', r'create_tx_rx$', [1]),
    (r'^broadcast::broadcast_queue_with$', r'create_tx_rx_with$', [1, 2]),
    (r'^broadcast::broadcast_fut_queue$', r'futures_multiqueue$', [1]),
    (r'^broadcast::broadcast_fut_queue_with$', r'futures_multiqueue_with$', [1, 2, 3]),
    (r'^mpmc::mpmc_queue$', r'create_tx_rx$', [1]),
    (r'^mpmc::mpmc_queue_with$', r'create_tx_rx_with$', [1, 2]),
    (r'^mpmc::mpmc_fut_queue$', r'futures_multiqueue$', [1]),
]


def _s3c(ctx):
    F = ctx.F
    for (nm, inner, params) in CTOR_FORWARD:
        fn = ctx.fn1(nm)
        g = ctx.graph(fn, 'BCast' if 'broadcast' in nm else 'MPMC')
        x = g.x
        calls = [c for c in x.inlined(inner) if x.home(c) == g.root_inst]
        ok = len(calls) == 1
        if ok:
            inst = g.nodes[calls[0]].call['inlined']
            for i, pi in enumerate(params):
                ok = ok and _is(g, g.ev_local(inst, i + 1), 'param', pi)
            # both halves of the result come from that one inner call
            r = g.strip(g.ev_local(g.root_inst, 0))
            ok = ok and r[0] == 'agg' and len(r[4]) == 2
        ctx.add('S3', 'T-SIB', fn, ok, 'constructor forwards its arguments unchanged to the inner constructor and wraps both halves' if ok else
                '%s does not forward (%s) unchanged to one inner constructor call' % (short_fn(fn), ', '.join('arg%d' % p for p in params)), sub='ctor-forward')
    # the inner constructors: capacity and waiter reach new_internal unchanged; the futures ones install the consumer list as waiter
    for nm in (r'^multiqueue::MultiQueue::<.*>::create_tx_rx_with$', r'^multiqueue::MultiQueue::<.*>::create_tx_rx$'):
        fn = ctx.fn1(nm)
        g = ctx.graph(fn, 'MPMC')
        x = g.x
        ni = [c for c in x.inlined(r'MultiQueue::<.*>::new_internal$')]
        ok = len(ni) == 1 and _is(g, g.ev_local(g.nodes[ni[0]].call['inlined'], 1), 'param', 1)
        if ok and nm.endswith('with$'):
            w = g.ev_local(g.nodes[ni[0]].call['inlined'], 2)
            ok = any(s_ == ('param', g.root_inst, 2) for s_ in g.deep_walk(w))
        ctx.add('S3', 'T-SIB', fn, ok, 'capacity (and waiter) reach new_internal unchanged' if ok else '%s does not pass its capacity / waiter on to new_internal' % short_fn(fn), sub='ctor-inner')
    fn = ctx.fn1(r'^multiqueue::MultiQueue::<.*>::new_internal$')
    g = ctx.graph(fn, 'MPMC')
    x = g.x
    for (nid, si, rv) in x.aggs(r'multiqueue::MultiQueue::MultiQueue$'):
        e = x.agg_expr(nid, si)
        w = e[4][e[3].index('waiter')]
        ok = _is(g, w, 'param', 2)
        ctx.add('S3', 'T-SIB', fn, ok, 'the waiter handed to the constructor is the one installed in the queue' if ok else 'new_internal installs a waiter other than the one it was given', where=x.where_stmt(nid, si), sub='waiter-installed')


def _s3d(ctx):
    """every Sink / Stream impl other than the three base impls delegates exactly once to a base impl and returns its result"""
    F = ctx.F
    base = {
        'start_send': r'^<&multiqueue::FutInnerSend<.*> as .*futures::Sink>::start_send$',
        'poll_complete': r'^<&multiqueue::FutInnerSend<.*> as .*futures::Sink>::poll_complete$',
        'poll': r'^<&multiqueue::FutInnerRecv<.*> as .*futures::Stream>::poll$|^<multiqueue::FutInnerUniRecv<.*> as .*futures::Stream>::poll$',
    }
    n = 0
    for name in sorted(F.fns):
        m = re.search(r' as .*futures::(Sink|Stream)>::(start_send|poll_complete|poll)$', name)
        if not m or F.fns[name]['kind'] == 'Closure':
            continue
        meth = m.group(2)
        if re.search(base[meth], name):
            continue
        g = ctx.graph(name, 'BCast' if 'broadcast' in name else 'MPMC')
        x = g.x
        hits = [i for i in g.insts if re.search(base[meth], i.fn)]
        if not hits:
            # the body of the base impl may live in a helper that does not exist in the reference tree and that the
            # base impl itself forwards to: reaching that helper directly is the same delegation
            bf = {c_ for b_ in F.find_fns(base[meth]) for blk in F.fns[b_]['blocks'] if blk['term']['k'] == 'call'
                  for c_ in [blk['term'].get('resolved') or blk['term'].get('fn')] if c_ in F.fresh}
            hits = [i for i in g.insts if i.fn in bf]
        n += 1
        if meth == 'poll_complete':
            r = g.strip(g.ev_local(g.root_inst, 0))
            ok = r[0] == 'agg' and r[2].endswith('Result::Ok')
            ctx.add('S3', 'T-SIB', name, ok, 'poll_complete is Ok(Ready(())) (nothing is buffered)' if ok else '%s::poll_complete is not Ok(Ready(()))' % short_fn(name), sub='delegate')
            continue
        ok = len(hits) == 1
        if ok:
            # the result is the base impl's result
            r = g.ev_local(g.root_inst, 0)
            b = g.ev_local(hits[0].id, 0)
            ok = g.strip(r) == g.strip(b)
            if meth == 'start_send':
                ok = ok and _is(g, g.ev_local(hits[0].id, 2), 'param', 2)
        ctx.add('S3', 'T-SIB', name, ok, '%s delegates once to the base %s and returns its result' % (short_fn(name), meth) if ok else
                '%s does not delegate exactly once to the base %s impl (message in, result out, unchanged)' % (short_fn(name), meth), sub='delegate')
    ctx.floor('S3', n, 10, 'delegating Sink/Stream impls')


def _p15i(ctx):
    """initial state of a new queue: head count 0, first stream at position 0 with one consumer, last_pos 0, tail cache 0, pins 0"""
    fn = ctx.fn1(r'^multiqueue::MultiQueue::<.*>::new_internal$')
    g = ctx.graph(fn, 'BCast')
    x = g.x
    vals = {}
    for (nid, si, rv) in x.aggs(r'multiqueue::MultiQueue::MultiQueue$'):
        e = x.agg_expr(nid, si)
        for f_ in ('head', 'tail_cache'):
            v = e[4][e[3].index(f_)]
            cs = [g.strip(g.call_args(s_[1])[0]) for s_ in g.walk(v) if s_[0] == 'call' and re.search(r'Atomic(Usize)?(::<.*>)?::new$', g.call_name(s_[1]) or '')]
            vals[f_] = [str(c[1]) if c[0] == 'c' else '?' for c in cs]
    for (nid, si, rv) in x.aggs(r'read_cursor::ReaderPos::ReaderPos$'):
        e = x.agg_expr(nid, si)
        cs = [g.strip(g.call_args(s_[1])[0]) for s_ in g.walk(e) if s_[0] == 'call' and re.search(r'Atomic(Usize)?(::<.*>)?::new$', g.call_name(s_[1]) or '')]
        vals['first-stream'] = [str(c[1]) if c[0] == 'c' else '?' for c in cs]
    for (nid, si, rv) in x.aggs(r'read_cursor::ReaderMeta::ReaderMeta$'):
        e = x.agg_expr(nid, si)
        cs = [g.strip(g.call_args(s_[1])[0]) for s_ in g.walk(e) if s_[0] == 'call' and re.search(r'Atomic(Usize)?(::<.*>)?::new$', g.call_name(s_[1]) or '')]
        vals['consumers'] = [str(c[1]) if c[0] == 'c' else '?' for c in cs]
    for (nid, si, rv) in x.aggs(r'read_cursor::ReadCursor::ReadCursor$'):
        e = x.agg_expr(nid, si)
        v = g.strip(e[4][e[3].index('last_pos')])
        vals['last_pos'] = [str(g.strip(g.call_args(v[1])[0])[1])] if v[0] == 'call' else ['?']
    pins = [a for a in x.atoms_on('RefCnt.refcnt') if a.op == 'store']
    vals['pins'] = [_const_of(g, g.call_args(a.nid)[1]) for a in pins]
    want = {'head': ['0'], 'tail_cache': ['0'], 'first-stream': ['0'], 'consumers': ['1'], 'last_pos': ['0'], 'pins': ['0']}
    ok = all(vals.get(k) == v for k, v in want.items())
    ctx.add('P15i', 'T-FLOW', fn, ok, 'a new queue starts with head = first stream position = tail cache = last_pos = 0, one consumer, no pins' if ok else
            'initial state of a new queue is not the all-zero / one-consumer state: %s' % {k: vals.get(k) for k in want if vals.get(k) != want[k]}, sub='initial')


# ---- P10h: which handle-returning functions create a stream and which stay on the caller's stream
NEW_STREAM = [r'^multiqueue::InnerRecv::<.*>::add_stream$', r'^multiqueue::FutInnerRecv::<.*>::add_stream$',
              r'^multiqueue::FutInnerUniRecv::<.*>::add_stream_with$', r'^multiqueue::FutInnerUniRecv::<.*>::into_multi$']
SAME_STREAM = [r'^<multiqueue::InnerRecv<.*> as std::clone::Clone>::clone$', r'^<multiqueue::FutInnerRecv<.*> as std::clone::Clone>::clone$',
               r'^multiqueue::FutInnerRecv::<.*>::into_single$']


def _p10h(ctx):
    """add_stream / add_stream_with / into_multi return a handle on a stream that was created and published during
    the call; clone / into_single return a handle on the caller's own stream and publish nothing"""
    for pat in NEW_STREAM + SAME_STREAM:
        fn = ctx.fn1(pat)
        new = pat in NEW_STREAM
        g = ctx.graph(fn, 'BCast')
        x = g.x
        pubs = [a for a in x.atoms_on('ReadCursor.readers') if a.op in WRITE_OPS]
        label = short_fn(fn)
        if not new:
            ctx.add('P10h', 'T-WHO', fn, not pubs, '%s stays on the caller\'s stream (no stream-list publication)' % label if not pubs else
                    '%s publishes a new stream list although it must hand out the caller\'s own stream (an extra stream nobody drains stalls the producers / sees every value again)' % label,
                    sub='same')
            continue
        succ = set()
        for a in pubs:
            if a.op in ('compare_exchange', 'compare_exchange_weak', 'compare_and_swap'):
                for sid in x.switches():
                    e = g.strip(g.switch_expr(sid))
                    if e[0] == 'discr' and g.strip(e[1])[0] == 'call' and x.rep(g.strip(e[1])[1]) == x.rep(a.nid):
                        succ.update(x.switch_edges(sid, '0'))
            else:
                succ.add(a.nid)
        ok = bool(succ) and all(x.dom(succ, ex) for ex in g.exits)
        ctx.add('P10h', 'T-MUST', fn, ok, '%s returns only after publishing a stream list with the new stream' % label if ok else
                '%s can return without having created and published a new stream: the handle it returns shares the caller\'s stream (takes values away from it, exerts no back-pressure of its own)' % label,
                sub='new')
        # the returned handle reads through the Reader built for the new stream, not through a copy of the caller's
        # (the Reader whose position cell is allocated during this call, wherever the construction is written)
        fresh = [(nid, si) for (nid, si, rv) in x.aggs(r'read_cursor::Reader::Reader$')
                 if any(s_[0] == 'call' and (re.search(r'alloc::allocate$', g.call_name(s_[1]) or '') or re.search(r'alloc::allocate$', short_fn(g.nodes[s_[1]].fn)))
                        for s_ in g.deep_walk(x.agg_expr(nid, si)))]
        okf = False
        for ex in g.exits:
            r = g.ev_local(g.root_inst, 0, at=(ex, None))
            ids = {s[5] for s in g.deep_walk(r) if s[0] == 'agg' and len(s) > 5}
            okf = bool(fresh) and any((nid, si) in ids or any((m, si) in ids for m in g.members(nid)) for (nid, si) in fresh)
            if not okf:
                break
        ctx.add('P10h', 'T-FLOW', fn, okf, 'the returned handle wraps the Reader of the stream created in this call' if okf else
                '%s does not return the Reader built for the newly published stream' % label, sub='reader')


def _p13f(ctx):
    """no buffer of the crate is sized from another buffer's capacity (`Vec::with_capacity(old.capacity() + 1)`): a
    capacity that is carried from one replacement list to the next never shrinks, so memory grows with churn"""
    F = ctx.F
    n = 0
    for name in sorted(F.fns):
        f = F.fns[name]
        if f.get('from_expansion') or name in F.fresh and ctx.revcg().get(name):
            continue
        sized = [b for b in f['blocks'] if not b['cleanup'] and b['term']['k'] == 'call' and
                 re.search(r'(Vec|VecDeque|String)(::<.*>)?::(with_capacity|reserve|reserve_exact)$', b['term'].get('fn') or '')]
        caps = [b for b in f['blocks'] if not b['cleanup'] and b['term']['k'] == 'call' and
                re.search(r'(Vec|VecDeque|String)(::<.*>)?::capacity$', b['term'].get('fn') or '')]
        if not sized and not caps:
            continue
        g = ctx.graph(name, 'BCast')
        x = g.x
        for c in x.ext_calls(r'(Vec|VecDeque|String)(::<.*>)?::(with_capacity|reserve|reserve_exact)$'):
            n += 1
            args = g.call_args(c)
            bad = [s_ for a_ in args for s_ in g.deep_walk(a_) if s_[0] == 'call' and re.search(r'::capacity$', g.call_name(s_[1]) or '')]
            ctx.add('P13f', 'T-FLOW', name, not bad, 'allocation sized from lengths / parameters, not from a capacity' if not bad else
                    '%s sizes a new buffer from the capacity of another one (%s): the capacity is inherited by every replacement and never shrinks, memory grows with every add/remove cycle'
                    % (short_fn(name), x.describe(bad[0][1])), where=g.where(c), sub='cap#bb%d' % g.nodes[c].bb)
    # (a tree without any explicitly sized allocation is fine: Vec::clone / push size by length)
    if n == 0:
        ctx.add('P13f', 'T-FLOW', ctx.fn1(r'^read_cursor::ReaderGroup::add_stream$'), True, 'no explicitly sized buffer in the crate other than alloc::allocate', sub='none')


FORGET_RE = r'(^|::)mem::forget$|ManuallyDrop(::<.*>)?::new$'
TAKE_RE = r'ptr::read$|ptr::drop_in_place$|ManuallyDrop(::<.*>)?::(take|drop|into_inner)$|mem::(replace|take)$'


def _p13g(ctx):
    """a value of one of the crate's own types that is withheld from its destructor (`mem::forget(v)`,
    `ManuallyDrop::new(v)`: the usual way to move parts out of a type that implements Drop) leaks every owning field that
    is not taken out (`ptr::read(&v.f)`) or destroyed in place (`drop_in_place(&mut v.f)`) on the same path: a cloned
    `Arc` instead of a moved one keeps the allocation alive for ever"""
    F = ctx.F
    n = 0
    for name in sorted(F.fns):
        f = F.fns[name]
        if f.get('from_expansion'):
            continue
        subj = []
        for b in f['blocks']:
            t = b['term']
            if b['cleanup'] or t['k'] != 'call' or not re.search(FORGET_RE, t.get('fn') or ''):
                continue
            g0 = (t.get('gtys') or [None])[0]
            adt = (g0 or {}).get('adt')
            if adt and adt in F.adts and F.adts[adt]['kind'] == 'Struct':
                subj.append(adt)
        if not subj:
            continue
        g = ctx.graph(name, 'BCast')
        x = g.x
        takes = x.ext_calls(TAKE_RE)
        for c in x.ext_calls(FORGET_RE):
            g0 = (g.nodes[c].term.get('gtys') or [None])[0]
            adt = (g0 or {}).get('adt')
            if not adt or adt not in F.adts or F.adts[adt]['kind'] != 'Struct':
                continue
            for fld in F.adts[adt]['variants'][0]['fields']:
                if not fld.get('needs_drop'):
                    continue
                n += 1
                key = '%s.%s' % (short(adt), fld['name'])
                mine = {t_ for t_ in takes if any(p_.endswith('/' + key) for a_ in g.call_args(t_)[:1] for p_ in g.locpaths(a_))}
                ok = bool(mine) and (x.dom(mine, c) or x.must(c, mine))
                ctx.add('P13g', 'T-MUST', name, ok, 'the forgotten %s has its %s taken out / destroyed on every path' % (short(adt), fld['name']) if ok else
                        '%s withholds a %s from its destructor but does not move out or destroy its field `%s` (%s) on every path: what the field owns is leaked'
                        % (short_fn(name), short(adt), fld['name'], fld['ty']['s']), where=g.where(c), sub='%s|%s' % (short(adt), fld['name']))
    if n == 0:
        ctx.add('P13g', 'T-MUST', ctx.fn1(r'^multiqueue::MultiQueue::<.*>::new_internal$'), True,
                'no value of a type of this crate is withheld from its destructor', sub='none')


USER_CODE_RE = r'ops::(FnOnce::call_once|FnMut::call_mut|Fn::call)$|clone::Clone::clone$'
CONSUMING_RE = r'QueueRW::drop_in_place$|QueueRW::forget_val$|ptr::drop_in_place$|ptr::read$|commit_direct$|Transaction::commit$|commit_attempt$'


def _p3u(ctx):
    """user code that unwinds (a view closure, a payload's Clone) must not trigger, on its way out, a destructor of this
    crate that destroys a payload or moves a position: the operation was not completed, so the slot still belongs to
    the stream (a guard that ends the slot's claim, formed *around* the closure, destroys the value and leaves it to be
    received and destroyed again).  Read off the cleanup blocks the call unwinds into."""
    F = ctx.F
    n = 0
    for name in sorted(F.fns):
        f = F.fns[name]
        if f.get('from_expansion') or not re.match(r'^(<)?(multiqueue|read_cursor|countedindex)::', name.lstrip('<&')):
            continue
        blocks = f['blocks']
        for bi, b in enumerate(blocks):
            t = b['term']
            if b['cleanup'] or t['k'] != 'call' or t.get('unwind') is None:
                continue
            if not re.search(USER_CODE_RE, t.get('fn') or '') or t.get('rk') not in ('none', 'virtual', None):
                continue
            # user code: a closure / payload type handed in through a public function (private helpers that take a closure
            # are given closures of this crate by their callers)
            owner_fn = f
            if f['kind'] == 'Closure' and f.get('parent') in F.fns:
                owner_fn = F.fns[f['parent']]
            if 'Public' not in str(owner_fn.get('vis')) and not re.search(r'clone::Clone::clone$', t.get('fn') or ''):
                continue
            n += 1
            bad = []
            work, seen = [int(t['unwind'])], set()
            while work:
                ub = work.pop()
                if ub is None or ub in seen or ub >= len(blocks):
                    continue
                seen.add(ub)
                ct = blocks[ub]['term']
                if ct['k'] == 'drop':
                    for gl in ct.get('glue') or []:
                        d = F.fns.get(gl['fn'])
                        if d is None:
                            continue
                        # (what sits behind an Arc / Rc is shared: its destructor is the last owner's business)
                        if any(isinstance(q_, dict) and (q_.get('via') or '').rsplit('::', 1)[-1] in ('Arc', 'Rc') for q_ in gl.get('proj') or []):
                            continue
                        callees = [(x_['term'].get('resolved') or '') for x_ in d['blocks'] if x_['term']['k'] == 'call'] + \
                                  [(x_['term'].get('fn') or '') for x_ in d['blocks'] if x_['term']['k'] == 'call']
                        if any(re.search(CONSUMING_RE, c_) for c_ in callees):
                            bad.append(short_fn(gl['fn']))
                # (drop flags are tested on the way: every cleanup block that can follow)
                for k_ in ('t', 'otherwise', 'unwind'):
                    v_ = ct.get(k_)
                    if v_ is not None and str(v_).isdigit():
                        work.append(int(v_))
                for v_ in ct.get('targets') or []:
                    work.append(int(v_))
            ctx.add('P3u', 'T-GUARD', name, not bad, 'no payload-destroying / position-moving destructor runs when this user code unwinds' if not bad else
                    'when the user code called at %s:%d unwinds, %s runs and destroys the payload / moves the position although the operation was not completed: the value is destroyed now and again later (handed to the next receive or to the queue destructor)'
                    % (f['file'], b['line'], ', '.join(sorted(set(bad)))), where='%s:%d' % (f['file'], b['line']), sub='bb%d' % bi)
    if n == 0:
        ctx.add('P3u', 'T-GUARD', ctx.fn1(r'^multiqueue::MultiQueue::<.*>::try_recv_view$'), True, 'no call of user code with an unwind path in the queue modules', sub='none')


INT_WIDTH = {'u8': 8, 'i8': 8, 'u16': 16, 'i16': 16, 'u32': 32, 'i32': 32, 'u64': 64, 'i64': 64, 'usize': 64, 'isize': 64, 'u128': 128, 'i128': 128}


def _p15n(ctx):
    """counts, distances, indices and capacities are word-sized everywhere in the queue code: a conversion to a narrower
    integer type (`diff as u16`) truncates once the value passes that type's range - a lag of exactly 65536 becomes 0,
    a full ring looks empty"""
    F = ctx.F
    n = 0
    for name in sorted(F.fns):
        f = F.fns[name]
        if f.get('from_expansion') or not re.match(r'^<?&?(multiqueue|read_cursor|countedindex|memory|wait|atomicsignal|alloc)::', name):
            continue
        for bi, b in enumerate(f['blocks']):
            if b['cleanup']:
                continue
            for s_ in b['stmts']:
                if s_['k'] != 'assign' or s_['rv']['k'] != 'cast':
                    continue
                fr = (s_['rv'].get('from') or {}).get('s')
                to = (s_['rv'].get('to') or {}).get('s')
                if fr in INT_WIDTH and to in INT_WIDTH and INT_WIDTH[to] < INT_WIDTH[fr]:
                    n += 1
                    ctx.add('P15n', 'T-TYPE', name, False,
                            '%s converts a %s to %s: counts, distances and capacities are word-sized in this crate, the narrower value wraps (e.g. a lag of exactly 2^%d reads 0: a full ring looks empty and unconsumed values are overwritten)'
                            % (short_fn(name), fr, to, INT_WIDTH[to]), where='%s:%d' % (f['file'], s_.get('line') or b['line']), sub='bb%d.%s' % (bi, to))
    if n == 0:
        ctx.add('P15n', 'T-TYPE', ctx.fn1(r'^read_cursor::ReaderGroup::get_max_diff$'), True, 'no narrowing integer conversion in the queue modules', sub='none')
