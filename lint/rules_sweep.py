"""thorough-tier crate-wide sweeps (the "contradiction form" of the who-may rules):
W3s  every access to a slot payload anywhere in the crate happens at a site that one of the vetted
     entry graphs (send entry, the six receive roots, the queue destructor) contains;
W1s  the same for writes to head / slot tags / stream positions / pin counts / writers / consumer counts."""
import re
from core import CheckError, short, short_fn
from rules_send import FLAVOURS, WRITE_OPS, PAYLOAD_ANY, send_entry, is_dead
from rules_recv import recv_roots, is_user_closure_call


LEAF_RE = re.compile(r'^(countedindex|atomicsignal|alloc|maybe_acquire|consume)::|as multiqueue::QueueRW<|\{closure#')


def owner(g, nid):
    """(function, block) of the nearest enclosing non-leaf function on the inlining chain: shared
    primitives (Transaction::commit*, the flavour impls, forwarding closures) are attributed to
    the queue-level function that invoked them"""
    n = g.nodes[nid]
    inst = g.insts[n.inst]
    bb = n.bb
    while LEAF_RE.search(inst.fn) and inst.parent is not None:
        cn = g.nodes[inst.call_node]
        bb = cn.bb
        inst = g.insts[inst.parent]
    return (inst.fn, bb)


def payload_sites(g, x):
    out = set()
    for n in x.ext_calls(PAYLOAD_ANY):
        a = g.call_args(n)
        if a and any('QueueEntry.val' in p for a_ in a[:2] for p in g.locpaths(a_)):
            out.add(owner(g, n) + (short_fn(g.call_name(n)),))
    for n in g.nodes:
        if n.id not in g.live():
            continue
        if n.kind == 'block' and n.term['k'] == 'drop' and any('QueueEntry.val' in p for p in g.locpaths(('ref', g.ev_place(n.inst, n.term['pl'], at=(n.id, None))))):
            out.add(owner(g, n.id) + ('drop-glue',))
        if is_user_closure_call(g, n.id):
            for a in g.call_args(n.id)[1:]:
                if any(s[0] == 'ref' and any('QueueEntry.val' in p for p in g.locpaths(s)) for s in g.walk(a)):
                    # a closure that merely forwards the reference it was handed by the view site
                    # (e.g. `|v| opref(v)` in the iterator / futures wrappers) is part of that site
                    anc = g.insts[n.inst].parent
                    fwd = False
                    while anc is not None:
                        if g.insts[anc].fn.endswith('try_recv_view::{closure#0}'):
                            fwd = True
                        anc = g.insts[anc].parent
                    out.add((owner(g, n.id) + ('user-closure',)) if not fwd else ('<forwarded>', 0, 'user-closure'))
        if n.kind == 'block':
            for s in n.stmts:
                if s['k'] == 'assign' and s['pl']['p'] and any(isinstance(q, dict) and q.get('f') == 'val' and short(q.get('adt')) == 'QueueEntry' for q in s['pl']['p']):
                    out.add(owner(g, n.id) + ('assignment',))
    return out


LOCS = {'MultiQueue.head/': 'head', 'QueueEntry.wraps': 'slot tag', 'ReaderPos.pos_data': 'stream position', 'RefCnt.refcnt': 'pin count',
        'MultiQueue.writers': 'writers count', 'ReaderMeta.num_consumers': 'consumer count', 'MultiQueue.tail_cache': 'tail cache',
        'ReadCursor.readers': 'stream list'}


def write_sites(g, x):
    out = set()
    for a in x.atoms.values():
        if a.op in WRITE_OPS:
            for k, v in LOCS.items():
                if a.on(k):
                    # a cell allocated during the call (a stream being created) is a class of its own
                    if v == 'stream position' and a.paths and all(p_.startswith('<call:') for p_ in a.paths):
                        v = v + ' (cell allocated in this call)'
                    out.add(owner(g, a.nid) + (v, a.op))
    return out


def run(ctx):
    ctx.step(_run, ctx)


def _run(ctx):
    F = ctx.F
    shared, view = recv_roots(ctx)
    vetted = [send_entry(ctx)] + shared + view + [ctx.fn1(r'^<multiqueue::MultiQueue<.*> as std::ops::Drop>::drop$'),
                                                   ctx.fn1(r'^multiqueue::MultiQueue::<.*>::new_internal$'),
                                                   ctx.fn1(r'^<multiqueue::InnerSend<.*> as std::clone::Clone>::clone$'),
                                                   ctx.fn1(r'^<multiqueue::InnerSend<.*> as std::ops::Drop>::drop$'),
                                                   ctx.fn1(r'^<multiqueue::InnerRecv<.*> as std::clone::Clone>::clone$'),
                                                   ctx.fn1(r'^<multiqueue::InnerRecv<.*> as std::ops::Drop>::drop$'),
                                                   ctx.fn1(r'^multiqueue::InnerRecv::<.*>::add_stream$')]
    allowed_p, allowed_w = {('<forwarded>', 0, 'user-closure')}, set()
    snd = send_entry(ctx)
    dq = ctx.fn1(r'^<multiqueue::MultiQueue<.*> as std::ops::Drop>::drop$')
    ni = ctx.fn1(r'^multiqueue::MultiQueue::<.*>::new_internal$')
    per_class = {
        'head': [snd], 'slot tag': [snd, ni], 'tail cache': [snd],
        'stream position': shared + view + [dq],
        'pin count': shared + [ni],
        'writers count': [ctx.fn1(r'^<multiqueue::InnerSend<.*> as std::clone::Clone>::clone$'), ctx.fn1(r'^<multiqueue::InnerSend<.*> as std::ops::Drop>::drop$')],
        'consumer count': [ctx.fn1(r'^<multiqueue::InnerRecv<.*> as std::clone::Clone>::clone$'), ctx.fn1(r'^<multiqueue::InnerRecv<.*> as std::ops::Drop>::drop$')],
        'stream list': [ctx.fn1(r'^multiqueue::InnerRecv::<.*>::add_stream$'), ctx.fn1(r'^<multiqueue::InnerRecv<.*> as std::ops::Drop>::drop$')],
        # placing a stream that is not published yet (P10a decides what it is placed at, and that it happens before publication)
        'stream position (cell allocated in this call)': [ctx.fn1(r'^multiqueue::InnerRecv::<.*>::add_stream$'), ni],
    }
    for r in [snd] + shared + view + [dq]:
        for fl in FLAVOURS:
            g = ctx.graph(r, fl)
            allowed_p |= payload_sites(g, g.x)
    for cls, roots in per_class.items():
        for r in roots:
            for fl in FLAVOURS:
                g = ctx.graph(r, fl)
                allowed_w |= {w for w in write_sites(g, g.x) if w[2] == cls}
    n = 0
    for name, f in sorted(F.fns.items()):
        if f['kind'] == 'Closure' or f.get('from_expansion'):
            continue
        if re.match(r'^(<&?(\'a )?)?(broadcast|mpmc|wait|alloc|atomicsignal|countedindex|memory|consume|maybe_acquire)::', name):
            # wrappers are thin (S3); the leaf modules cannot name QueueEntry / MultiQueue fields
            if not re.match(r'^(<&?(\'a )?)?(broadcast|mpmc)::', name):
                continue
        if is_dead(F, name):
            continue
        # a helper that is new relative to the reference tree is swept as part of the functions that call it
        if name in F.fresh and ctx.revcg().get(name):
            continue
        n += 1
        for fl in FLAVOURS:
            try:
                g = ctx.graph(name, fl)
            except CheckError:
                raise
            ps = payload_sites(g, g.x) - allowed_p
            ws = write_sites(g, g.x) - allowed_w
            ctx.add('W3s', 'T-WHO', name, not ps, 'no slot-payload access outside the vetted sites' if not ps else
                    '%s reaches a slot-payload access that no vetted send/receive/teardown graph contains: %s' % (short_fn(name), sorted((short_fn(a), c) for (a, b, c) in ps)[:3]),
                    flavour=fl, sub='payload')
            ctx.add('W1s', 'T-WHO', name, not ws, 'no write to queue control state outside the vetted sites' if not ws else
                    '%s reaches a write to %s that no vetted graph contains' % (short_fn(name), sorted((short_fn(a), c, d) for (a, b, c, d) in ws)[:3]),
                    flavour=fl, sub='control')
    ctx.floor('W3s', n, 100, 'functions swept')
