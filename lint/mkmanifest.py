"""regenerate /verif/MANIFEST.json from props.py (run after changing the property table)"""
import json, os, sys
HERE = os.path.dirname(os.path.abspath(__file__))
sys.path.insert(0, HERE)
import props
VERIF = os.path.dirname(HERE)
P = [json.loads(l) for l in open(os.path.join(VERIF, 'properties.jsonl'))]
NA = getattr(props, 'NOT_APPLICABLE', {})
checks = []
na = []
for p in P:
    pid = p['id']
    if pid == 'C19' and getattr(props, 'C19_CLAIMED', False):
        checks.append({
            'property_id': pid,
            'quick_cmd': './check C19 --tier quick',
            'thorough_cmd': './check C19 --tier thorough',
            'evidence_file': '/verif/evidence/C19.json',
            'replay_cmd_template': './check C19 --explain {path}',
            'engine': 'probes',
            'level_claimed': {'category': 'proof', 'design_ref': 'DESIGN.md section 5 C19',
                              'text': 'Decided by rustc\'s trait solver: generic positive witnesses (for all T with the stated bounds) and negative witnesses by instance (ambiguous-impl idiom, each with a compiling twin) for all 12 handle types over the payload/closure classes of the statement; thorough adds the impl-header comparison for the "exactly when" direction.'},
            'level_note': 'trusted base: rustc nightly trait solver; the probe generator (each negative witness has a compiling twin so a wrong path cannot fake a pass)',
            'technique': 'compile-time trait-solver witnesses (compile-pass / compile-fail probes) + impl-header enumeration from the type-checked crate',
        })
        continue
    if pid in props.PROPS:
        rules = props.PROPS[pid]
        checks.append({
            'property_id': pid,
            'quick_cmd': './check %s --tier quick' % pid,
            'thorough_cmd': './check %s --tier thorough' % pid,
            'evidence_file': '/verif/evidence/%s.json' % pid,
            'replay_cmd_template': './check %s --explain {path}' % pid,
            'engine': 'mq2facts+mq2lint',
            'level_claimed': {'category': 'other', 'design_ref': 'DESIGN.md section 5 %s' % pid,
                              'text': 'Static rule checking on the MIR of the current tree: the structural obligations %s are decided on all non-unwind paths of the functions they range over, for both flavours (thorough: dev and release MIR + seeded-variant self-test). These are necessary conditions of the property; the behaviour itself is not claimed.' % ', '.join(rules)},
            'level_note': 'NOT decided: %s. Trusted: rustc MIR + Instance::try_resolve, the fact serialiser, the provenance/points-to abstraction, summaries of external higher-order functions; unwind paths excluded; x86_64 configuration.' % props.UNDECIDED.get(pid, ''),
            'technique': 'custom rustc_private MIR analysis: who-may-write sets, dominance / must-pass-through / pairing (typestate) / value-flow rules on inlined per-flavour CFGs',
        })
    else:
        na.append({'property_id': pid, 'reason': NA.get(pid, 'static rules for this property are not built yet in this commit (see DESIGN.md section 5); no other technique is substituted')})
m = {
    'version': 1,
    'setup_cmd': 'cd /verif/driver && CARGO_NET_OFFLINE=true cargo +nightly build --release --offline && cd /verif && python3 lint/warm.py',
    'hooks': {'guard': 'multiqueue2_verif',
              'enable': 'none needed: the checks read the MIR of the unmodified crate (guard name reserved, unused)',
              'baseline_off_cmd': 'cd /repo && cargo test --workspace --no-fail-fast --offline -- --test-threads 8',
              'source_commits': [], 'add_only': True},
    'engines': [
        {'name': 'mq2facts', 'path': '/verif/driver', 'serves_properties': sorted(props.PROPS), 'kind_free_text': 'rustc_private driver dumping MIR / ADT / impl facts of /repo as JSON (RUSTC_WORKSPACE_WRAPPER under cargo +nightly check)'},
        {'name': 'mq2lint', 'path': '/verif/lint', 'serves_properties': sorted(props.PROPS), 'kind_free_text': 'Python rule engine: MIR inliner per flavour, value provenance, jump threading, dominance/reachability/typestate rules'},
        {'name': 'probes', 'path': '/verif/probes', 'serves_properties': ['C19'], 'kind_free_text': 'generated probe crate: trait-solver witnesses'},
    ],
    'checks': checks,
    'not_applicable': na,
    'notes': 'Technique family: static analysis only. ./check <ID> re-extracts facts from /repo on every run (nonce-checked). Genuine defects found on the pinned tree are fixed by "fix:" commits in /repo or listed in /verif/known_findings.json.',
}
json.dump(m, open(os.path.join(VERIF, 'MANIFEST.json'), 'w'), indent=1)
print('checks', len(checks), 'na', len(na))
