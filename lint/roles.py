"""Name roles.  The rules name functions and fields of the crate (anchors).  A behaviour-preserving rename of a
private field or function must not change a verdict, so the names of the pinned tree are recorded once
(roles.json: per type its fields in declaration order with their types, per function its owner and signature) and
every fact file is canonicalised against that record before any rule runs:

* a recorded field that no longer exists under its name is identified with the unmatched field of the same type at
  the same declaration index (or the only unmatched field of that type);
* a recorded function that no longer exists is identified with the only unrecorded function of the same owner
  (impl self type + trait, or module) and the same signature.

Anything that cannot be identified this way stays missing and the rules that need it end as CHECK-ERROR.

  python3 roles.py make   (re)writes roles.json from the current /repo -- done once, on the reference tree
"""
import json
import os
import re
import sys

HERE = os.path.dirname(os.path.abspath(__file__))
ROLES = os.path.join(HERE, 'roles.json')


def _owner(name, f):
    st = f.get('impl_self')
    if st:
        return 'impl %s for %s' % (f.get('impl_trait') or '-', st.get('s'))
    return 'mod ' + re.sub(r'::[^:]+$', '', re.sub(r'<[^<>]*>', '', name))


def _sig(f):
    ac = f['arg_count']
    return '(%s) -> %s [%s] %s' % (', '.join(l['ty']['s'] for l in f['locals'][1:ac + 1]), f['locals'][0]['ty']['s'],
                                    ','.join(f.get('generics') or []), f['kind'])


def make(d):
    out = {'adts': {}, 'fns': {}}
    for path, a in d['adts'].items():
        if a.get('kind') != 'Struct':
            continue
        out['adts'][path] = [[fl['name'], fl['ty']['s']] for fl in a['variants'][0]['fields']]
    for name, f in d['fns'].items():
        if f['kind'] == 'Closure' or f.get('from_expansion'):
            continue
        out['fns'][name] = {'owner': _owner(name, f), 'sig': _sig(f)}
    return out


def _walk(o, fn):
    if isinstance(o, dict):
        fn(o)
        for v in o.values():
            if isinstance(v, (dict, list)):
                _walk(v, fn)
    elif isinstance(o, list):
        for v in o:
            if isinstance(v, (dict, list)):
                _walk(v, fn)


def apply(d, roles=None):
    """canonicalise fact dict d in place; -> report {'fields': [...], 'fns': [...]}"""
    if roles is None:
        if not os.path.exists(ROLES):
            return {'fields': [], 'fns': [], 'fresh': []}
        roles = json.load(open(ROLES))
    rep = {'fields': [], 'fns': []}
    # ---- types moved to another module of the crate (same name, same fields): every mention of the new path is
    # rewritten to the path of the reference tree (type strings, impl owners and the paths of the type's methods)
    moved = {}
    for path, rfields in roles['adts'].items():
        if path in d['adts']:
            continue
        name = path.split('::')[-1]
        cands = []
        for cp, a in d['adts'].items():
            if cp in roles['adts'] or cp.split('::')[-1] != name or a.get('kind') != 'Struct':
                continue
            cur = [[fl['name'], fl['ty']['s'].replace(cp, path)] for fl in a['variants'][0]['fields']]
            if cur == [[n_, t_] for n_, t_ in rfields]:
                cands.append(cp)
        if len(cands) == 1:
            moved[cands[0]] = path
    if moved:
        text = json.dumps(d)
        for newp, oldp in moved.items():
            text = re.sub(re.escape(newp) + r'(?![A-Za-z0-9_])', oldp, text)
            rep['fields'].append('type %s is %s of the reference tree (moved to another module)' % (newp, oldp))
        nd = json.loads(text)
        d.clear()
        d.update(nd)
    # ---- fields
    falias = {}   # (adt path, current name) -> role name
    for path, rfields in roles['adts'].items():
        a = d['adts'].get(path)
        if not a or a.get('kind') != 'Struct':
            continue
        cur = [(fl['name'], fl['ty']['s']) for fl in a['variants'][0]['fields']]
        cur_names = {n for n, _ in cur}
        role_names = {n for n, _ in rfields}
        missing = [(i, n, t) for i, (n, t) in enumerate(rfields) if n not in cur_names]
        fresh = [(i, n, t) for i, (n, t) in enumerate(cur) if n not in role_names]
        for (ri, rn, rt) in missing:
            cand = [c for c in fresh if c[0] == ri and c[2] == rt]
            if not cand:
                same = [c for c in fresh if c[2] == rt]
                if len(same) == 1 and len([m for m in missing if m[2] == rt]) == 1:
                    cand = same
            if len(cand) == 1:
                falias[(path, cand[0][1])] = rn
                fresh.remove(cand[0])
                rep['fields'].append('%s.%s is %s.%s of the reference tree' % (path, cand[0][1], path, rn))
    if falias:
        def fix(o):
            if 'f' in o and 'adt' in o and (o['adt'], o['f']) in falias:
                o['f'] = falias[(o['adt'], o['f'])]
            if o.get('k') == 'agg' and o.get('ak') == 'adt' and isinstance(o.get('fields'), list):
                o['fields'] = [falias.get((o['adt'], n), n) for n in o['fields']]
        _walk(d['fns'], fix)
        _walk(d.get('xfns') or {}, fix)
        for (path, curname), rn in falias.items():
            for fl in d['adts'][path]['variants'][0]['fields']:
                if fl['name'] == curname:
                    fl['name'] = rn
    # ---- functions
    cur_fns = {n: f for n, f in d['fns'].items() if f['kind'] != 'Closure' and not f.get('from_expansion')}
    missing = [n for n in roles['fns'] if n not in d['fns']]
    fresh = [n for n in cur_fns if n not in roles['fns']]
    nalias = {}
    for m in missing:
        r = roles['fns'][m]
        cand = [n for n in fresh if _owner(n, cur_fns[n]) == r['owner'] and _sig(cur_fns[n]) == r['sig']]
        rivals = [x for x in missing if roles['fns'][x]['owner'] == r['owner'] and roles['fns'][x]['sig'] == r['sig']]
        if len(cand) == 1 and len(rivals) == 1:
            nalias[cand[0]] = m
            fresh.remove(cand[0])
            rep['fns'].append('%s is %s of the reference tree' % (cand[0], m))
    # free functions moved to another module (same name, same signature)
    for m in [x_ for x_ in missing if x_ not in nalias.values()]:
        r = roles['fns'][m]
        if not r['owner'].startswith('mod '):
            continue
        last = re.sub(r'<[^<>]*>', '', m).split('::')[-1]
        cand = [n for n in fresh if re.sub(r'<[^<>]*>', '', n).split('::')[-1] == last and _owner(n, cur_fns[n]).startswith('mod ')
                and _sig(cur_fns[n]) == r['sig']]
        if len(cand) == 1:
            nalias[cand[0]] = m
            fresh.remove(cand[0])
            rep['fns'].append('%s is %s of the reference tree (moved to another module)' % (cand[0], m))
    if nalias:
        def ren(s):
            for cur, role in nalias.items():
                if s == cur:
                    return role
                if s.startswith(cur + '::'):
                    return role + s[len(cur):]
            return s
        for key in ('fns',):
            d[key] = {ren(k): v for k, v in d[key].items()}

        def fixn(o):
            for k in ('fn', 'resolved', 'parent', 'path', 'closure'):
                v = o.get(k)
                if isinstance(v, str):
                    nv = ren(v)
                    if nv != v:
                        o[k] = nv
            if 'name' in o and 'path' in o and isinstance(o.get('path'), str) and o['path'] in nalias.values():
                pass
        _walk(d['fns'], fixn)
        _walk(d.get('xfns') or {}, fixn)
        _walk(d.get('impls') or [], fixn)
        for im in d.get('impls') or []:
            for it in im.get('items', []):
                for cur, role in nalias.items():
                    if it.get('path') == role:
                        it['name'] = re.sub(r'^.*::', '', re.sub(r'<[^<>]*>', '', role))
        for cur, role in nalias.items():
            f = d['fns'].get(role)
            if f is not None and 'name' in f:
                f['name'] = re.sub(r'^.*::', '', role)
    # functions that do not exist in the reference tree (after identification of renames): helpers introduced by a
    # refactoring.  Rules treat their code as part of the function that calls them.
    fresh = set()
    for n, f in d['fns'].items():
        if f['kind'] != 'Closure' and not f.get('from_expansion') and n not in roles['fns']:
            fresh.add(n)
    changed = True
    while changed:
        changed = False
        for n, f in d['fns'].items():
            if f['kind'] == 'Closure' and n not in fresh and f.get('parent') in fresh:
                fresh.add(n)
                changed = True
    rep['fresh'] = sorted(fresh)
    return rep


if __name__ == '__main__':
    if sys.argv[1:] == ['make']:
        sys.path.insert(0, HERE)
        import extract
        p, _ = extract.extract(crate_dir=os.environ.get('MQ2_REPO', '/repo'), tag='roles')
        d = json.load(open(p))
        os.remove(p)
        json.dump(make(d), open(ROLES, 'w'), indent=0, sort_keys=True)
        print('roles.json: %d types, %d functions' % (len(make(d)['adts']), len(make(d)['fns'])))
