"""Reclamation / teardown rules: P12a-c P13a-c W12  (DESIGN.md section 4)."""
import re
from core import CheckError, short, short_fn
from rules_send import FLAVOURS, WRITE_OPS, CAS_OPS, PAYLOAD_ANY, index_sources
from rules_pop import callers_of
from rules_wait import guard_drops
from engine import is_const, norm_rel

LOCKS = r'(Mutex|RwLock)(::<.*>)?::(lock|try_lock|write|read|try_write|try_read)$'


def run(ctx):
    ctx.step(_p12a, ctx)
    ctx.step(_p12b, ctx)
    ctx.step(_p12c, ctx)
    ctx.step(_p12d, ctx)
    ctx.step(_w12, ctx)
    ctx.step(_p13, ctx)
    ctx.step(_p13d, ctx)


def _param_proj(g, e, pi):
    """e is parameter pi of the root, or a field / deref of it (a newtype or struct passed instead of the bare value)"""
    e = g.strip(e)
    while e[0] in ('fld', 'deref', 'dc', 'cast'):
        e = g.strip(e[2] if e[0] == 'cast' else e[1])
    return e == ('param', g.root_inst, pi)


def _p12a(ctx):
    fn = ctx.fn1(r'^memory::MemoryManagerInner::try_freeing$')
    g = ctx.graph(fn)
    x = g.x
    dels = sorted({n_ for (n_, _i) in g.inlined_insts(r'memory::ToFree::delete$')})
    ctx.floor('P12a', len(dels), 1, 'ToFree::delete call in try_freeing')
    _eq, ne_edges, _h = x.eq_tests(lambda a_, b_: a_[0] == 'call' and x.rep(a_[1]) in x.atoms and x.atoms[x.rep(a_[1])].on('MemToken.epoch')
                                   and _param_proj(g, b_, 2))
    eq_seen = bool(_h)
    nexts = [n for n in x.ext_calls(r'Iterator::next$|::next$')
             if any(p.endswith('MemoryManagerInner.tokens') for a in g.call_args(n) for c in x.calls_in(a) for p in g.locpaths(g.call_args(c)[0]) if g.call_args(c))]
    none_edges = set()
    for sid in x.switches():
        e = g.strip(g.switch_expr(sid))
        if e[0] == 'discr' and g.strip(e[1])[0] == 'call' and x.rep(g.strip(e[1])[1]) in nexts:
            none_edges.update(x.switch_edges(sid, '0'))
    for d in dels:
        c1 = eq_seen and all(not x.reaches(e_, d) for e_ in ne_edges)
        c2 = bool(none_edges) and x.dom(none_edges, d)
        # iterator-adaptor form: `tokens.iter().all(|t| epoch(t) == at)` (delete on the true edge) or
        # `.any(|t| epoch(t) != at)` (delete on the false edge)
        if not c2:
            for n in x.ext_calls(r'Iterator::(all|any)$|iter::.*::(all|any)$'):
                is_all = (g.call_name(n) or '').endswith('all')
                pred = None
                for ci in g.nodes[n].call['closure_insts']:
                    nr_ = norm_rel(g, g.ev_local(ci, 0))
                    if nr_ and nr_[0] == 'Eq' and any(a.on('MemToken.epoch') for sd in nr_[1:3] for a in x.loads_in(sd)):
                        pred = 'Eq' if nr_[3] else 'Ne'
                want = None
                if is_all and pred == 'Eq':
                    want = 'nonzero'
                elif (not is_all) and pred == 'Ne':
                    want = 'zero'
                if want is None:
                    continue
                edges = set()
                for sid in x.switches():
                    e = g.strip(g.switch_expr(sid))
                    pol = want
                    while e[0] == 'un' and e[1] == 'Not':
                        e = g.strip(e[2])
                        pol = 'zero' if pol == 'nonzero' else 'nonzero'
                    if e[0] == 'call' and x.rep(e[1]) == n:
                        edges.update(x.switch_edges(sid, pol))
                if edges and x.dom(edges, d):
                    c1 = True
                    c2 = True
        ctx.add('P12a', 'T-GUARD', fn, c1 and c2,
                'retired objects are deleted only after every registered token was seen at the requested epoch' if c1 and c2 else
                'try_freeing: delete unreachable from a "token epoch differs" edge=%s, delete only after the whole token list was examined=%s' % (c1, c2),
                where=g.where(d), sub='delete')
    # the epoch compared is the token's announced epoch, loaded with Acquire
    for a in x.atoms_on('MemToken.epoch', ops={'load'}):
        from engine import has_acquire
        ok = bool(a.ords) and has_acquire(a.ords[0])
        if not ok:
            ok = any(has_acquire(o) and all(x.dom({f_}, d) for d in dels) for (f_, o, _) in x.fences)
        ctx.add('P12a', 'T-ORD', fn, ok, 'token epochs are acquired before the objects are deleted', where=g.where(a.nid), sub='acquire')


def _p12b(ctx):
    """lock order between the two manager mutexes: never two opposite blocking acquisitions"""
    F = ctx.F
    order = {}
    fns = [k for k in F.fns if re.search(r'^memory::MemoryManager::\w+$', k)]
    for fn in fns:
        g = ctx.graph(fn)
        x = g.x
        locks = []
        for n in x.ext_calls(LOCKS):
            nm = g.call_name(n)
            paths = g.locpaths(g.call_args(n)[0])
            field = sorted(paths)[0].split('/')[-1] if paths else '?'
            locks.append((n, field, 'try_' not in nm))
        for (l1, f1, b1) in locks:
            drops = set()
            for nd in g.nodes:
                if nd.id in g.live() and nd.kind == 'block' and nd.term['k'] == 'drop' and 'Guard' in nd.term['dty']['s']:
                    if l1 in x.calls_in(g.ev_place(nd.inst, nd.term['pl']), deep=True):
                        drops.add(nd.id)
            for (l2, f2, b2) in locks:
                if l1 == l2 or f1 == f2:
                    continue
                if x.reaches(l1, l2, blocked=drops):
                    order.setdefault((f1, f2), []).append((fn, b2, g.where(l2)))
    bad = []
    for (a, b), sites in order.items():
        if any(bl for (_, bl, _) in sites) and any(bl for (_, bl, _) in order.get((b, a), [])):
            bad.append('%s -> %s (%s) and %s -> %s (%s) both blocking' % (a, b, sites[0][2], b, a, order[(b, a)][0][2]))
    anchor = ctx.fn1(r'^memory::MemoryManager::free$')
    ctx.add('P12b', 'T-ORD', anchor, not bad, 'lock order between the manager mutexes is acyclic for blocking acquisitions (%s)' % sorted('%s->%s%s' % (a, b, '' if any(s[1] for s in v) else '(try)') for (a, b), v in order.items()) if not bad else
            'opposite blocking lock orders: %s' % bad, sub='lock-order')


def _p12c(ctx):
    """epoch announcement only at a quiescent point of the operation"""
    F = ctx.F
    roots = [k for k in F.fns if re.search(r'^multiqueue::(InnerSend|InnerRecv)::<.*>::(try_send|try_recv|recv|try_recv_view|recv_view|add_stream)$', k)]
    roots += [k for k in F.fns if re.search(r'^<&?multiqueue::FutInner(Uni)?Recv<.*> as .*Stream>::poll$', k)]
    roots += [k for k in F.fns if re.search(r'^<multiqueue::(InnerSend|InnerRecv|FutInnerRecv|FutInnerUniRecv)<.*> as std::ops::Drop>::drop$', k)]
    # (Sink::start_send runs several complete try_send operations in sequence; each of them is
    #  covered by the InnerSend::try_send root)
    roots += [k for k in F.fns if re.search(r'^read_cursor::ReadCursor::(get_max_diff|add_stream|remove_reader)$', k)]
    ctx.floor('P12c', len(roots), 12, 'operation roots')
    n_ann = 0
    for r in sorted(roots):
        g = ctx.graph(r, 'BCast')
        x = g.x
        anns = x.inlined(r'memory::MemoryManager::update_token$')
        n_ann += len(anns)
        listloads = [a for a in x.atoms_on('ReadCursor.readers') if a.op == 'load' or a.op in CAS_OPS]
        bad = []
        for U in anns:
            # announce belongs to the operation's own token? (self.token)
            before = [a for a in listloads if x.reaches(a.nid, U)]
            if not before:
                continue
            after = x.reach_from(U)
            for n in g.nodes:
                if n.id not in after or n.call is None or n.call['inlined'] is not None:
                    continue
                nm = g.call_name(n.id) or ''
                if re.search(r'MemoryManager|alloc::', nm):
                    continue
                for a in g.call_args(n.id):
                    used = x.calls_in(a)
                    hit = [b for b in before if b.nid in used]
                    if hit and x.rep(n.id) != x.rep(U) and not any(x.rep(n.id) == b.nid for b in before):
                        # retiring the replaced list after publication is the intended use
                        if re.search(r'ToFree|Vec(::<.*>)?::push$|mem::|ptr::mut_ptr', nm):
                            continue
                        bad.append('%s uses the list pointer loaded at %s after the epoch announcement at %s' % (x.describe(n.id), x.describe(hit[0].nid), g.where(U)))
        ctx.add('P12c', 'T-FLOW', r, not bad, 'no pointer obtained from the stream list before an epoch announcement is used after it' if not bad else bad[0],
                witness=bad[:5], sub='quiescent')
    ctx.floor('P12c', n_ann, 3, 'epoch announcements (update_token) reachable from the operation roots')


def _p13d(ctx):
    fn = ctx.fn_or_host(r'^memory::MemoryManager::start_free$', 'MemoryManager.epoch', WRITE_OPS, r'^memory::MemoryManager::')
    g = ctx.graph(fn)
    x = g.x
    # overwriting the pending batch: assignment to MemoryManagerInner.tofree
    writes = []
    for n in g.nodes:
        if n.id in g.live() and n.kind == 'block':
            for si, s in enumerate(n.stmts):
                if s['k'] == 'assign' and s['pl']['p'] and isinstance(s['pl']['p'][-1], dict) and s['pl']['p'][-1].get('f') == 'tofree':
                    writes.append(x.rep(n.id))
    # (a batch can also be handed over by moving the elements: `tofree.append(backlog)` / `extend(backlog.drain(..))`)
    writes += [x.rep(n_) for n_ in x.ext_calls(r'Vec(::<.*>)?::(append|extend|push|insert|extend_from_slice)$|iter::Extend::extend$')
               if any(p_.endswith('MemoryManagerInner.tofree') for p_ in g.locpaths(g.call_args(n_)[0]))]
    writes = sorted(set(writes))
    ctx.floor('P13d', len(writes), 1, 'installation of a new retired-object batch (MemoryManagerInner.tofree)')
    def _inner(sd):
        return any(s[0] == 'fld' and s[2] == 'MemoryManagerInner.epoch' for s in g.deep_walk(sd))

    def _glob(sd):
        return any(a.on('MemoryManager.epoch') for a in x.loads_in(sd))
    done_edges = set()
    for t_ in x.tests(('Eq',)):
        if (_inner(t_.a) or _inner(t_.b)) and (_glob(t_.a) or _glob(t_.b)):
            done_edges.update(t_.true)
    _z, _nz, _h = x.zero_tests(lambda e_: e_[0] == 'call' and bool(re.search(r'Vec(::<.*>)?::len$', g.call_name(e_[1]) or '')) and
                               any(s[0] == 'fld' and s[2] == 'MemoryManagerInner.tofree' for s in g.deep_walk(g.call_args(e_[1])[0])))
    done_edges.update(_z)
    for sid in x.switches():
        e = g.strip(g.switch_expr(sid))
        if e[0] == 'call' and re.search(r'Vec(::<.*>)?::is_empty$', g.call_name(e[1]) or '') and \
                any(s[0] == 'fld' and s[2] == 'MemoryManagerInner.tofree' for s in g.deep_walk(g.call_args(e[1])[0])):
            done_edges.update(x.switch_edges(sid, 'nonzero'))
    for w in writes:
        ok = bool(done_edges) and x.dom(done_edges, w)
        ctx.add('P13d', 'T-GUARD', fn, ok, 'a new batch of retired objects is installed only when the previous cycle completed (completed epoch == current epoch / batch empty)' if ok else
                'start_free can change the batch of a reclamation cycle that is still pending (not guarded by "completed epoch == current epoch"): an overwritten batch is dropped without being deleted and leaks, objects appended to it are freed with that cycle although handles that already announced its epoch may still use them (no grace period)',
                where=g.where(w), sub='add_freeable')


def _p12d(ctx):
    """a handle gives up its token only after its last access to shared bookkeeping: once the token is
    removed the handle no longer holds back reclamation, so nothing it still reads may be retired memory"""
    roots = [ctx.fn1(r'^<multiqueue::InnerRecv<.*> as std::ops::Drop>::drop$'),
             ctx.fn1(r'^<multiqueue::FutInnerRecv<.*> as std::ops::Drop>::drop$'),
             ctx.fn1(r'^<multiqueue::FutInnerUniRecv<.*> as std::ops::Drop>::drop$'),
             ctx.fn1(r'^<multiqueue::InnerSend<.*> as std::ops::Drop>::drop$')]
    for r in roots:
        g = ctx.graph(r, 'MPMC')
        x = g.x
        rts = x.inlined(r'memory::MemoryManager::remove_token$')
        shared = [a for a in x.atoms.values() if a.nid == x.rep(a.nid) and a.on('ReadCursor.readers', 'ReaderPos.pos_data', 'ReaderGroup.readers', 'QueueEntry.')]
        lists = x.ext_calls(r'Vec(::<.*>)?::(clone|len|is_empty)$|IntoIterator::into_iter$')
        late = []
        for rt in rts:
            for a in shared:
                if x.reaches(rt, a.nid):
                    late.append(x.describe(a.nid))
            for c in lists:
                if x.reaches(rt, c) and any(p_.endswith('ReaderGroup.readers') for p_ in g.locpaths(g.call_args(c)[0])):
                    late.append(x.describe(c))
        ctx.add('P12d', 'T-REACH', r, not late, 'the token is removed only after the handle\'s last access to the stream list / positions' if not late else
                '%s removes its reclamation token and afterwards still accesses shared bookkeeping (%s): that memory can be reclaimed underneath it' % (short_fn(r), sorted(set(late))[:3]),
                sub='token-last')


def _w12(ctx):
    F = ctx.F
    # (1) epochs are announced only where the operation saw the epoch bit of the signal word it loaded (the signal
    # handlers, wherever their code lives) and by remove_token
    from rules_extra import signal_bits, _const_of
    bits = signal_bits(ctx)
    upd = callers_of(F, r'memory::MemoryManager::update_token$')
    ctx.floor('W12', len(upd), 1, 'functions calling MemoryManager::update_token')
    for c in sorted(upd):
        if re.search(r'MemoryManager::remove_token$', c):
            ctx.add('W12', 'T-WHO', c, True, 'remove_token announces before it retires the token', sub='update_token')
            continue
        g = ctx.graph(c, 'MPMC')
        x = g.x
        sig = {a.nid for a in x.atoms_on('AtomicSignal.flags', ops={'load'})}

        def _ep_bit(e_):
            if e_[0] != 'bin' or e_[1] != 'BitAnd':
                return False
            for m, k in ((g.strip(e_[2]), _const_of(g, e_[3])), (g.strip(e_[3]), _const_of(g, e_[2]))):
                if k == bits['set_epoch'][1] and (m[0] == 'call' and x.rep(m[1]) in sig or
                                                   any(s_[0] == 'param' and s_[1] == g.root_inst for s_ in g.deep_walk(m))):
                    return True
            return False
        _z, ep_edges, _h = x.zero_tests(_ep_bit)
        calls = [n for n in x.inlined(r'memory::MemoryManager::update_token$') if x.home(n) == g.root_inst]
        ok = bool(calls) and bool(ep_edges) and all(x.dom(ep_edges, n) for n in calls)
        ctx.add('W12', 'T-WHO', c, ok, 'epoch announced only on the "epoch bit seen" edge of the signal word' if ok else
                '%s calls update_token outside the "epoch bit of the loaded signal word is set" edge' % short_fn(c), sub='update_token')
    # (2) retired objects are deleted only by try_freeing (all tokens announced) or by a destructor (exclusive access)
    allowed_del = lambda f_: bool(re.search(r'MemoryManagerInner::try_freeing$|as std::ops::Drop>::drop$', f_))
    dele = callers_of(F, r'memory::ToFree::delete$')
    owners = set()
    for c in dele:
        owners |= ctx.terminal_owners(c, allowed_del)
    okd = all(allowed_del(c) for c in owners) and len(owners) >= 2
    ctx.add('W12', 'T-WHO', ctx.fn1(r'^memory::ToFree::delete$'), okd, 'retired objects are deleted only by try_freeing (all tokens announced) or by a destructor (exclusive access)' if okd else
            'ToFree::delete is reached from %s' % sorted(short_fn(c) for c in owners if not allowed_del(c)), sub='delete')
    # (3) direct deallocation of published classes
    from rules_extra2 import freer_fn
    freer = freer_fn(ctx)
    allowed_de = lambda f_: f_ == freer or bool(re.search(r'ReadCursor::(add_stream|remove_reader)$|as std::ops::Drop>::drop$', f_))
    for name, f in F.fns.items():
        for b in f['blocks']:
            if b['cleanup']:
                continue
            t = b['term']
            if t['k'] == 'call' and (t.get('fn') or '').endswith('alloc::deallocate'):
                cls = (t.get('generics') or ['?'])[0]
                if re.search(r'ReaderGroup|ReaderPos|MemToken', cls):
                    own = ctx.terminal_owners(name, allowed_de)
                    badown = sorted(short_fn(o) for o in own if not allowed_de(o))
                    ok = not badown
                    ctx.add('W12', 'T-WHO', name, ok, 'direct deallocate::<%s> at a vetted site (never-published object / destructor)' % short(cls) if ok else
                            'deallocate::<%s> called directly in %s (reached from %s): objects other threads may still read must go through MemoryManager::free' % (short(cls), short_fn(name), badown),
                            where='%s:%d' % (f['file'], b['line']), sub='dealloc|' + short(cls))


OWNING = [
    ('MultiQueue.data', 'slot ring'),
    ('MultiQueue.refs', 'pin-count ring'),
    ('ReadCursor.readers', 'currently published stream list'),
    ('MemoryManager.wait_to_free', 'retired objects not yet handed to a reclamation cycle'),
    ('MemoryManagerInner.tofree', 'retired objects of the running reclamation cycle'),
]


def _p13(ctx):
    F = ctx.F
    drops = [k for k in F.fns if re.search(r' as std::ops::Drop>::drop$', k) and F.fns[k]['kind'] == 'AssocFn']
    ctx.floor('P13', len(drops), 5, 'Drop impls in the crate')
    released = {}

    def owners_of(adt_short):
        """ADTs that contain adt_short by value (transitively), incl. itself"""
        out = {adt_short}
        changed = True
        while changed:
            changed = False
            for path, a in F.adts.items():
                if short(path) in out:
                    continue
                for v in a['variants']:
                    for fld in v['fields']:
                        ts = fld['ty']['s']
                        if fld['ty']['k'] == 'adt' and not re.match(r'(std|alloc)::(sync|rc)::(Arc|Rc|Weak)', ts) and \
                                any(re.search(r'(^|[<:, ])%s([<>, ]|$)' % re.escape(o), ts) for o in out):
                            out.add(short(path))
                            changed = True
        return out

    for d in drops:
        self_adt = short((F.fns[d].get('impl_self') or {}).get('adt'))
        for fl in ('BCast',):
            g = ctx.graph(d, fl)
            x = g.x
            for (n, inst) in g.inlined_insts(r'^alloc::deallocate$|memory::ToFree::delete$|memory::MemoryManager::free$'):
                for pi in (1, 2):
                    if pi > g.insts[inst].body['arg_count']:
                        continue
                    e = g.ev_local(inst, pi)
                    for s in g.deep_walk(e):
                        if s[0] == 'fld':
                            released.setdefault(s[2], set()).add(self_adt)
            # iterators draining a Vec<ToFree>
            for n in x.ext_calls(r'Vec(::<.*>)?::drain$|IntoIterator::into_iter$'):
                for a in g.call_args(n)[:1]:
                    for s in g.deep_walk(a):
                        if s[0] == 'fld' and g.inlined_insts(r'memory::ToFree::delete$'):
                            released.setdefault(s[2], set()).add(self_adt)
    for (field, what) in OWNING:
        adt, fname = field.split('.')
        F.adt(adt)
        own = owners_of(adt)
        by = sorted(released.get(field, set()) & own)
        ok = bool(by)
        ctx.add('P13b', 'T-PAIR', ctx.fn1(r'^<multiqueue::MultiQueue<.*> as std::ops::Drop>::drop$'), ok,
                'teardown releases the %s (%s) in Drop for %s' % (what, field, by) if ok else
                'no destructor releases the %s (%s): it leaks when the last handle is dropped' % (what, field), sub=field)
    # a: allocation classes
    classes = {}
    for name, f in F.fns.items():
        for b in f['blocks']:
            t = b['term']
            if t['k'] == 'call' and (t.get('fn') or '').endswith('alloc::allocate'):
                classes.setdefault(short((t.get('generics') or ['?'])[0]), []).append(short_fn(name))
    rel_classes = set()
    for name, f in F.fns.items():
        for b in f['blocks']:
            t = b['term']
            if t['k'] == 'call' and re.search(r'alloc::deallocate$|MemoryManager::free$|ToFree::new$', t.get('fn') or ''):
                rel_classes.add(short((t.get('generics') or ['?'])[0]))
    ctx.floor('P13a', len(classes), 5, 'allocation classes')
    for cls, where in sorted(classes.items()):
        if cls in ('T', 'F'):
            continue
        ok = cls in rel_classes
        ctx.add('P13a', 'T-PAIR', ctx.fn1(r'^alloc::allocate$'), ok, 'allocation class %s has a release site' % cls if ok else
                'allocation class %s (allocated in %s) is never deallocated anywhere in the crate' % (cls, sorted(set(where))), sub=cls)
    # c: destructor shape
    dq = ctx.fn1(r'^<multiqueue::MultiQueue<.*> as std::ops::Drop>::drop$')
    for fl in FLAVOURS:
        g = ctx.graph(dq, fl)
        x = g.x
        ops = [n for n in x.ext_calls(PAYLOAD_ANY) if g.call_args(n) and any('QueueEntry.val' in p for p in g.locpaths(g.call_args(n)[0]))]
        drops_ = [n.id for n in g.nodes if n.id in g.live() and n.kind == 'block' and n.term['k'] == 'drop' and n.term['dty']['k'] == 'param']
        if fl == 'BCast':
            untag, _t, _h = x.zero_tests(lambda e_: e_[0] == 'bin' and e_[1] == 'BitAnd' and any(a.on('QueueEntry.wraps') for a in x.loads_in(e_)))
            reads = [n for n in ops if re.search(r'ptr::read$|drop_in_place$', g.call_name(n))]
            c1 = bool(reads) and bool(untag) and all(x.dom(untag, r) for r in reads)
            c2 = all(not (x.reach_from(e_, blocked=set(reads)) & (set(g.exits) | set(x.ext_calls(r'Iterator::next$|::next$')))) for e_ in untag)
            # the value read is dropped
            mdrops = [n_ for n_ in x.ext_calls(r'mem::drop$')]
            c3 = all(any(r in x.calls_in(g.ev_place(g.nodes[d].inst, g.nodes[d].term['pl'])) for d in drops_) or g.call_name(r).endswith('drop_in_place')
                     or any(r in x.calls_in(g.call_args(m_)[0]) for m_ in mdrops) for r in reads)
            rng = any(any(s[0] == 'fld' and s[2] == 'MultiQueue.capacity' for s in g.deep_walk(a)) for a in x.loop_bounds())
            ops = [o_ for o_ in ops if not (g.call_name(o_).endswith('mem::drop') and any(r in x.calls_in(g.call_args(o_)[0]) for r in reads))]
            ok = c1 and c2 and c3 and rng and len(ops) == len(reads)
            ctx.add('P13c', 'T-GUARD', dq, ok, 'clone-out teardown drops exactly the untagged (ever written) slots of 0..capacity' if ok else
                    'clone-out teardown: read only untagged=%s, every untagged slot read=%s, value dropped=%s, over 0..capacity=%s, no other payload op=%s' % (c1, c2, c3, rng, len(ops) == len(reads)),
                    flavour=fl, sub='bcast')
        else:
            dips = [n for n in ops if g.call_name(n).endswith('drop_in_place')]
            src_ok = False
            for n in dips:
                idx = index_sources(x, g.call_args(n)[0]) or []
                # index comes from a local counter initialised from last_pos
                for s in g.deep_walk(g.call_args(n)[0]):
                    if s[0] == 'fld' and s[2] == 'ReadCursor.last_pos':
                        src_ok = True
            head_cmp = False
            ne_edges, cmp_sids = set(), set()
            for t_ in x.tests(('Eq',)):
                l, r = t_.a, t_.b
                # the range test compares the two raw position counts (same domain as head): no masking / arithmetic
                if l[0] == 'call' and r[0] == 'call' and x.rep(l[1]) in x.atoms and x.rep(r[1]) in x.atoms and \
                        (x.atoms[x.rep(l[1])].on('MultiQueue.head/') or x.atoms[x.rep(r[1])].on('MultiQueue.head/')):
                    head_cmp = True
                    ne_edges.update(t_.false)
                    cmp_sids.update(x.same_site(t_.sid))
            ok = bool(dips) and src_ok and head_cmp and len(ops) == len(dips)
            ctx.add('P13c', 'T-GUARD', dq, ok, 'move-out teardown destroys the slots from last_pos up to head' if ok else
                    'move-out teardown: drop_in_place present=%s, starts at last_pos=%s, loop bounded by comparing the raw position count with head (unmasked)=%s, no other payload op=%s' % (bool(dips), src_ok, head_cmp, len(ops) == len(dips)),
                    flavour=fl, sub='mpmc')
            # the loop runs while the counter differs from head, and every round moves the counter on by one
            adv = [a for a in x.atoms.values() if a.op in WRITE_OPS and a.paths and all(p_.startswith('<call:') for p_ in a.paths) and a.nid == x.rep(a.nid)]
            ok_a = bool(ne_edges) and all(x.dom(ne_edges, n) for n in dips)
            ok_b = bool(adv) and all(x.must(n, {a.nid for a in adv}, exits=set(g.exits) | cmp_sids) for n in dips)
            ctx.add('P13c', 'T-LOOP', dq, ok_a and ok_b, 'move-out teardown: a slot is destroyed only while the counter differs from head, and the counter advances after each' if ok_a and ok_b else
                    'move-out teardown loop: body only on the "counter != head" edge=%s, counter advanced in every round=%s (values between last_pos and head are leaked, or one slot is destroyed over and over)' % (ok_a, ok_b),
                    flavour=fl, sub='mpmc-loop')
