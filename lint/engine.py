"""mq2lint engine: context, result records, graph cache and query helpers used by the rules."""
import re
import time
from core import (Facts, Graph, CheckError, atomic_events, fences, ordering_of, short, short_fn,
                  ORD_RANK)


class Res:
    __slots__ = ('rule', 'template', 'fn', 'flavour', 'ok', 'msg', 'where', 'witness', 'sub',
                 'config')

    def __init__(self, rule, template, fn, flavour, ok, msg, where, witness, sub, config):
        self.rule = rule
        self.template = template
        self.fn = fn
        self.flavour = flavour
        self.ok = ok
        self.msg = msg
        self.where = where
        self.witness = witness or []
        self.sub = sub
        self.config = config

    def key(self):
        k = '%s|%s' % (self.rule, short_fn(self.fn))
        if self.sub:
            k += '|' + self.sub
        return k

    def to_json(self):
        return {'rule': self.rule, 'template': self.template, 'function': short_fn(self.fn),
                'def_path': self.fn, 'flavour': self.flavour, 'config': self.config,
                'verdict': 'holds' if self.ok else 'VIOLATED', 'detail': self.msg,
                'where': self.where, 'witness': self.witness[:12], 'key': self.key()}


class Ctx:
    def __init__(self, facts, config='dev', depth=14):
        self.F = facts
        self.config = config
        self.depth = depth
        self.results = []
        self.floors = []
        self.errors = []
        self._graphs = {}
        self._groups_done = set()
        self.stats = {'graphs': 0, 'nodes': 0, 'insts': 0, 'call_sites': 0}
        self.t0 = time.time()

    # ---- results
    def add(self, rule, template, fn, ok, msg, flavour=None, where=None, witness=None, sub=None):
        if where is None and fn in self.F.fns:
            where = self.F.where(fn)
        r = Res(rule, template, fn, flavour, bool(ok), msg, where, witness, sub, self.config)
        self.results.append(r)
        return r

    def floor(self, rule, found, expected, what):
        """instance floor: fewer matched instances than counted by hand => CHECK-ERROR"""
        self.floors.append({'rule': rule, 'found': found, 'floor': expected, 'what': what})
        if found < expected:
            raise CheckError('floor not met for %s: found %d < %d (%s)' % (rule, found, expected, what))

    def step(self, fn, *args):
        """run one rule function; an anchor / floor failure inside it is recorded and the remaining rules still
        run (a violation found elsewhere is reported; without one the check ends as CHECK-ERROR)"""
        import traceback
        try:
            return fn(*args)
        except CheckError as e:
            self.errors.append('%s: %s' % (getattr(fn, '__name__', '?'), e))
        except (KeyError, IndexError, TypeError, ValueError, AttributeError) as e:
            self.errors.append('%s: internal %s: %s | %s' % (getattr(fn, '__name__', '?'), type(e).__name__, e,
                                                          ' <- '.join(l.strip() for l in traceback.format_exc().split('\n')[-6:-1])))
        return None

    # ---- who-may rules: attribution of a site to the functions that are responsible for it.  A private helper that is
    # only ever called from vetted functions is part of them (extract-method must not change a verdict); a vetted
    # function that was inlined into its caller leaves the site in the caller, which the rule then has to vet by
    # structure (each rule says how).
    def revcg(self):
        if getattr(self, '_revcg', None) is None:
            rev = {}
            for name, f in self.F.fns.items():
                for b in f['blocks']:
                    if b['cleanup']:
                        continue
                    t = b['term']
                    if t['k'] == 'call' and 'fn' in t:
                        for nm in {t.get('resolved'), t['fn']}:
                            if nm in self.F.fns and nm != name:
                                rev.setdefault(nm, set()).add(name)
                if f['kind'] == 'Closure' and f.get('parent') in self.F.fns:
                    rev.setdefault(name, set()).add(f['parent'])
            self._revcg = rev
        return self._revcg

    def subjects_for(self, fn):
        """the functions a rule should analyse when it discovered `fn` as a subject: fn itself, or - if fn is a helper
        that does not exist in the reference tree - the reference functions that (transitively) call it"""
        if fn not in self.F.fresh:
            return {fn}
        return {o for o in self.terminal_owners(fn, lambda f_: f_ not in self.F.fresh) if o not in self.F.fresh} or {fn}

    def terminal_owners(self, fn, allowed):
        """functions answerable for a site in fn: fn itself if allowed(fn) or if nothing in the crate calls it, else
        (transitively) its callers"""
        rev = self.revcg()
        seen, out, st = set(), set(), [fn]
        while st:
            f = st.pop()
            if f in seen:
                continue
            seen.add(f)
            if allowed(f) or not rev.get(f):
                out.add(f)
            else:
                st.extend(rev[f])
        return out

    # ---- graphs
    def graph(self, root, flavour=None, depth=None, inline_filter=None, tag=None):
        key = (root, flavour, depth or self.depth, tag)
        g = self._graphs.get(key)
        if g is None:
            g = Graph(self.F, root, flavour, max_depth=depth or self.depth, inline_filter=inline_filter)
            for (nid, callee, why) in g.not_inlined:
                if why != 'filtered':
                    raise CheckError('cannot expand %s: call to %s not inlined (%s) — the crate-local '
                                     'call graph must be acyclic and within the depth bound'
                                     % (root, callee, why))
            self._graphs[key] = g
            self.stats['graphs'] += 1
            self.stats['nodes'] += len(g.live())
            self.stats['insts'] += len(g.insts)
            self.stats['call_sites'] += sum(1 for n in g.nodes if n.call is not None)
            GX(g)
        return g

    def fn1(self, regex):
        return self.F.one_fn(regex)

    def fn_or_host(self, regex, field, ops, scope):
        """the function named by `regex`; when the tree has no such function any more (its body was merged into its
        caller), the function of the reference tree that now *hosts* its characteristic step: the only function matching
        `scope` in whose own code (helpers new to the tree included) an atomic `ops` on `field` is found"""
        m = self.F.find_fns(regex)
        if len(m) == 1:
            return m[0]
        hosts = []
        for name in sorted(self.F.fns):
            f = self.F.fns[name]
            if not re.search(scope, name) or f['kind'] == 'Closure' or f.get('from_expansion') or name in self.F.fresh:
                continue
            g = self.graph(name)
            x = g.x
            if any(a.op in ops and x.home(a.nid) == g.root_inst for a in x.atoms_on(field)):
                hosts.append(name)
        if len(hosts) != 1:
            raise CheckError('anchor %r matched %d functions and its characteristic step (%s on %s) is hosted by %s' % (regex, len(m), sorted(ops), field, hosts))
        return hosts[0]


class Test:
    __slots__ = ('sid', 'rel', 'a', 'b', 'true', 'false')

    def __init__(self, sid, rel, a, b, true, false):
        self.sid, self.rel, self.a, self.b, self.true, self.false = sid, rel, a, b, list(true), list(false)


def is_const(e, v=None):
    """expression is a literal (equal to v when given)"""
    if e[0] != 'c':
        return False
    return v is None or str(e[1]) == str(v)


def norm_rel(g, e):
    """value-level twin of GX.tests: a boolean expression as (rel, a, b, holds) with rel in Eq / Lt / Le,
    `holds` False when the expression is the negation of the relation; None if it is no comparison"""
    e = g.strip(e)
    neg = False
    while e[0] == 'un' and e[1] == 'Not':
        e = g.strip(e[2])
        neg = not neg
    if e[0] != 'bin' or e[1] not in ('Eq', 'Ne', 'Lt', 'Le', 'Gt', 'Ge'):
        return None
    op, a, b = e[1], g.strip(e[2]), g.strip(e[3])
    if op == 'Ne':
        op, neg = 'Eq', not neg
    elif op == 'Gt':
        op, a, b = 'Lt', b, a
    elif op == 'Ge':
        op, a, b = 'Le', b, a
    return (op, a, b, not neg)


class GX:
    """per-graph derived tables (attached to the graph as g.x)"""

    def __init__(self, g):
        self.g = g
        g.x = self
        self.atoms = {a.nid: a for a in atomic_events(g)}
        self.fences = fences(g)
        self.by_site = {}
        self._tests = {}
        self._fresh = set((getattr(g.facts, 'aliases', None) or {}).get('fresh') or ())
        for n in g.nodes:
            if n.id in g.live():
                self.by_site.setdefault(self.site(n.id), []).append(n.id)

    def site(self, nid):
        return self.g.site_of(nid)

    def same_site(self, nid):
        return self.by_site.get(self.site(nid), [nid])

    def sites(self, nids):
        return {self.site(n) for n in nids}

    def expand_sites(self, nids):
        out = set()
        for n in nids:
            out.update(self.same_site(n))
        return out

    # ---- normalised tests.  Rules never look at the syntactic form of a condition: `a == b`,
    # `a != b`, `!(a == b)`, `match a { b => .., _ => .. }` and the operand order all become the
    # same record, so rewriting a test in another form cannot change a verdict.
    def tests(self, rels=('Eq',)):
        """-> list of Test(sid, rel, a, b, true, false): switch `sid` decides `a rel b` (rel in Eq / Lt / Le,
        operands stripped); `true` / `false` are the edge nodes taken when the relation holds / does not."""
        key = tuple(rels)
        if key in self._tests:
            return self._tests[key]
        g = self.g
        out = []
        for sid in self.switches():
            e = g.strip(g.switch_expr(sid))
            neg = False
            while e[0] == 'un' and e[1] == 'Not':
                e = g.strip(e[2])
                neg = not neg
            if e[0] == 'bin' and e[1] in ('Eq', 'Ne', 'Lt', 'Le', 'Gt', 'Ge'):
                op, a, b = e[1], g.strip(e[2]), g.strip(e[3])
                if op == 'Ne':
                    op, neg = 'Eq', not neg
                elif op == 'Gt':
                    op, a, b = 'Lt', b, a
                elif op == 'Ge':
                    op, a, b = 'Le', b, a
                t, f = self.switch_edges(sid, 'nonzero'), self.switch_edges(sid, 'zero')
                if neg:
                    t, f = f, t
                if op in rels:
                    out.append(Test(sid, op, a, b, t, f))
                # a < b  ==  !(b <= a): offer the complementary form too so that a rule asking for one finds both
                comp = {'Lt': 'Le', 'Le': 'Lt'}.get(op)
                if comp and comp in rels and op not in rels:
                    out.append(Test(sid, comp, b, a, f, t))
            elif 'Eq' in rels:
                # switch on the value itself: one equality test per listed value
                vals = {}
                other = []
                for sib in g.members(sid):
                    for eid in g.nodes[sib].succs:
                        if g.nodes[eid].kind != 'edge':
                            continue
                        sw, v, oth = g.nodes[eid].edge
                        if v is None:
                            other.append(eid)
                        else:
                            vals.setdefault(str(v), []).append(eid)
                alle = [x for v in vals.values() for x in v] + other
                for v, es in sorted(vals.items()):
                    t, f = es, [x for x in alle if x not in es]
                    if neg:
                        t, f = f, t
                    out.append(Test(sid, 'Eq', e, ('c', int(v) if v.lstrip('-').isdigit() else v, None), t, f))
        self._tests[key] = out
        return out

    def zero_tests(self, pred, within=None):
        """edges on which an (unsigned) expression satisfying pred is known to be zero / non-zero:
        e == 0, e < 1, e <= 0, 0 < e, in any syntactic form.  -> (zero_edges, nonzero_edges, [(sid, zero, nonzero)])"""
        hit = []
        for t in self.tests(('Eq',)):
            for a, b in ((t.a, t.b), (t.b, t.a)):
                if is_const(b, 0) and pred(a):
                    hit.append((t.sid, t.true, t.false))
                    break
        for t in self.tests(('Lt',)):
            if is_const(t.b, 1) and pred(t.a):          # e < 1
                hit.append((t.sid, t.true, t.false))
            elif is_const(t.a, 0) and pred(t.b):        # 0 < e
                hit.append((t.sid, t.false, t.true))
        if within is not None:
            hit = [h for h in hit if h[0] in within]
        z, nz = set(), set()
        for _sid, a, b in hit:
            z.update(a)
            nz.update(b)
        return z, nz, hit

    def eq_tests(self, pred):
        """edges (true, false) of every equality test whose operands satisfy pred(a, b) in either order"""
        t, f = set(), set()
        hit = []
        for x in self.tests(('Eq',)):
            if pred(x.a, x.b) or pred(x.b, x.a):
                t.update(x.true)
                f.update(x.false)
                hit.append(x)
        return t, f, hit

    def home(self, nid):
        """the instance a node belongs to for rules that speak about "the code of this operation itself": helper
        functions that do not exist in the reference tree (extract-method refactorings) count as their caller"""
        g = self.g
        fresh = self._fresh
        i = g.nodes[nid].inst
        while i is not None and g.insts[i].parent is not None and (g.insts[i].fn in fresh or g.insts[i].fn in g.facts.xfns):
            i = g.insts[i].parent
        return i

    def loop_bounds(self):
        """bound expressions of the counting loops of the graph, whatever their form: the argument of
        `for i in a..b` (the Range handed to into_iter) and the right-hand side of `while i < b` when i starts at 0 and
        is incremented by 1"""
        g = self.g
        out = []
        for n in self.ext_calls(r'into_iter$'):
            out += list(g.call_args(n))
        # `(a..b).for_each(|i| ..)` and friends: the range is the receiver of the adaptor
        for n in self.ext_calls(r'Iterator::(for_each|try_for_each|fold|try_fold|all|any|position|find|map|rev|step_by)$'):
            out += list(g.call_args(n))[:1]

        def incr(z):
            z = g.strip(z)
            if z[0] == 'fld' and z[2] == '0':
                z = g.strip(z[1])
            if z[0] == 'bin' and z[1].replace('WithOverflow', '').replace('Unchecked', '') == 'Add':
                return is_const(g.strip(z[2]), 1) or is_const(g.strip(z[3]), 1)
            return False
        for t in self.tests(('Lt',)):
            a = t.a
            if a[0] == 'phi' and any(is_const(g.strip(z), 0) for z in a[1]) and any(incr(z) for z in a[1]):
                out.append(t.b)
        return out

    def within_inst(self, nid, insts):
        """node lies in one of the given instances or in an instance inlined below one of them"""
        g = self.g
        i = g.nodes[nid].inst
        while i is not None:
            if i in insts:
                return True
            i = g.insts[i].parent
        return False

    def within(self, nid, regex):
        """node lies in an inlined instance of a function matching regex (at any depth of the inlining chain)"""
        g = self.g
        i = g.nodes[nid].inst
        r = re.compile(regex)
        while i is not None:
            if r.search(g.insts[i].fn):
                return True
            i = g.insts[i].parent
        return False

    # ---- event lookup
    def rep(self, nid):
        """representative of a site: the original node (threading clones have larger ids)"""
        return min(self.g.members(nid))

    def _reps(self, nids):
        seen = set()
        out = []
        for n in nids:
            r = self.rep(n)
            if r not in seen:
                seen.add(r)
                out.append(r)
        return out

    def atoms_on(self, *subs, ops=None):
        out = []
        for a in self.atoms.values():
            if a.nid == self.rep(a.nid) and a.on(*subs) and (ops is None or a.op in ops):
                out.append(a)
        return out

    def ext_calls(self, regex):
        r = re.compile(regex)
        g = self.g
        live = g.live()
        out = []
        for n in g.nodes:
            if n.call is None or n.call['inlined'] is not None or n.id not in live:
                continue
            nm = g.call_name(n.id) or ''
            if r.search(nm) or r.search(n.call['name']):
                out.append(n.id)
        return self._reps(out)

    def inlined(self, regex):
        return self._reps(self.g.inlined_calls(regex))

    def aggs(self, regex):
        """live aggregate constructions 'adt::Variant' matching regex -> [(nid, si, rv)]"""
        r = re.compile(regex)
        g = self.g
        live = g.live()
        out = []
        seen = set()
        for n in g.nodes:
            if n.id not in live or n.kind != 'block':
                continue
            for si, s in enumerate(n.stmts):
                if s['k'] == 'assign' and s['rv']['k'] == 'agg' and s['rv']['ak'] == 'adt':
                    nm = '%s::%s' % (s['rv']['adt'], s['rv']['variant'])
                    if r.search(nm):
                        rp = self.rep(n.id)
                        if (rp, si) not in seen:
                            seen.add((rp, si))
                            out.append((rp, si, s['rv']))
        return out

    def agg_expr(self, nid, si):
        n = self.g.nodes[nid]
        return self.g.ev_rv(n.inst, n.stmts[si]['rv'], nid, si)

    def where_stmt(self, nid, si):
        n = self.g.nodes[nid]
        f = self.g.facts.fns[n.fn]
        return '%s:%d' % (f['file'], n.stmts[si].get('line', n.line))

    def switches(self):
        g = self.g
        live = g.live()
        return self._reps([n.id for n in g.nodes if n.kind == 'block' and n.id in live and n.term['k'] == 'switch'])

    def switch_edges(self, sid, want):
        """edge nodes of switch `sid` for want = 'zero' (value 0) / 'nonzero' / a value string"""
        g = self.g
        out = []
        for sib in g.members(sid):
            for eid in g.nodes[sib].succs:
                if g.nodes[eid].kind != 'edge':
                    continue   # a test resolved by path splitting: no edge is "taken"
                sw, v, oth = g.nodes[eid].edge
                if want == 'zero' and v is not None and str(v) == '0':
                    out.append(eid)
                elif want == 'nonzero' and (v is None and '0' in (oth or ()) or (v is not None and str(v) != '0')):
                    out.append(eid)
                elif v is not None and str(v) == str(want):
                    out.append(eid)
                elif v is None and want not in ('zero', 'nonzero') and str(want) not in [str(o) for o in (oth or ())]:
                    # `if let Some(..) = e {..} else {..}` lists only the variant it binds: the other variant(s) take
                    # the otherwise edge
                    out.append(eid)
        return out

    def loads_in(self, e, deep=True):
        """atomic events (site representatives) whose result the expression mentions"""
        return [self.atoms[c] for c in sorted(self.calls_in(e, deep=deep)) if c in self.atoms]

    def calls_in(self, e, deep=True):
        return {self.rep(c) for c in self.g.call_nodes_in(e, deep=deep)}

    # ---- path predicates.  Identity is by *site*: jump threading clones nodes, and a node set
    # always stands for every live node of the same sites.
    def _exp(self, nids):
        g = self.g
        out = set()
        for n in nids:
            out.update(g.members(n))
        return out

    def dom(self, aset, b):
        """every path entry -> (any node of b's site) passes through a node of aset's sites"""
        aset = self._exp(aset)
        bs = [m for m in self.g.members(b) if m in self.g.live()]
        if not bs:
            return True
        r = self.g.reachable(None, blocked=aset)
        return not any(m in r for m in bs if m not in aset)

    def must(self, a, bset, exits=None):
        """every path from after a to an exit passes a node of bset"""
        bset = self._exp(bset)
        return all(self.g.must_pass(m, bset, exits) for m in self.g.members(a) if m in self.g.live())

    def reach_from(self, a, blocked=None):
        blocked = self._exp(blocked or ())
        out = set()
        for m in self.g.members(a):
            if m in self.g.live():
                out |= self.g.reach_after(m, blocked=blocked)
        return self._exp(out)

    def reaches(self, a, b, blocked=None):
        return b in self.reach_from(a, blocked)

    def reachable_entry(self, blocked=None):
        return self._exp(self.g.reachable(None, blocked=self._exp(blocked or ())))

    def describe(self, nid):
        g = self.g
        n = g.nodes[nid]
        if n.kind == 'edge':
            sw, v, oth = n.edge
            return 'edge(%s==%s)@%s' % ('switch', v if v is not None else 'other', g.where(nid))
        if n.id in self.atoms:
            a = self.atoms[n.id]
            return '%s(%s,%s)@%s' % (a.op, '|'.join(sorted(x.split('/', 1)[-1] for x in a.paths)), '/'.join('|'.join(sorted(o)) for o in a.ords), g.where(nid))
        if n.call is not None:
            return '%s()@%s' % (short_fn(g.call_name(nid)), g.where(nid))
        return '%s@%s' % (n.term['k'], g.where(nid))


def ord_max(ords):
    """weakest ordering an op may have (ords is a set of names; '?' = unknown -> weakest)"""
    if not ords or '?' in ords:
        return 'Relaxed?'
    return min(ords, key=lambda o: ORD_RANK.get(o, 0))


def has_release(ords):
    return bool(ords) and all(o in ('Release', 'AcqRel', 'SeqCst') for o in ords)


def has_acquire(ords):
    return bool(ords) and all(o in ('Acquire', 'AcqRel', 'SeqCst') for o in ords)


# ----------------------------------------------------------------------------------------
# path-sensitive helpers
# ----------------------------------------------------------------------------------------

def expr_key(g, e, _d=0):
    """canonical string of an expression (call results by node site)"""
    if _d > 25:
        return '..'
    k = e[0]
    if k == 'call':
        n = g.nodes[e[1]]
        return 'call@%d.%d' % (n.inst, n.bb)
    if k in ('ref', 'deref', 'discr', 'idx', 'opaque'):
        return '%s(%s)' % (k, expr_key(g, e[1], _d + 1))
    if k in ('fld', 'dc'):
        return '%s.%s' % (expr_key(g, e[1], _d + 1), e[2])
    if k == 'cast':
        return expr_key(g, e[2], _d + 1)
    if k == 'bin':
        return '%s(%s,%s)' % (e[1], expr_key(g, e[2], _d + 1), expr_key(g, e[3], _d + 1))
    if k == 'un':
        return '%s(%s)' % (e[1], expr_key(g, e[2], _d + 1))
    if k == 'c':
        return 'c%s' % e[1]
    if k == 'param':
        return 'p%d.%d' % (e[1], e[2])
    if k == 'phi':
        return 'phi[%s]' % '|'.join(sorted(expr_key(g, x, _d + 1) for x in e[1]))
    if k == 'agg':
        return 'agg:%s{%s}' % (short_fn(e[2]), ','.join(expr_key(g, x, _d + 1) for x in e[4]))
    return k


def stable_cond(g, sid):
    """key of a switch condition that cannot change between two evaluations in one execution of
    the root: it mentions no phi and only results of calls that are not on a cycle; else None"""
    e = g.strip(g.switch_expr(sid))
    inst = g.nodes[sid].inst
    entry = g.insts[inst].entry
    for s in g.walk(e):
        if s[0] in ('phi', 'rec', 'undef', 'unknown', 'hofarg'):
            return None
        if s[0] == 'call':
            # re-executed within one execution of the instance that tests it?
            if s[1] in g.reach_after(s[1], blocked={entry}):
                return None
    if not g.call_nodes_in(e, deep=False):
        return None
    return (expr_key(g, e), inst)


def pairing(g, opens, closes, start=None):
    """typestate DFS: every open is closed before exit / re-open; no close without open.
    Correlates repeated tests of one stable condition.  -> list of problems (strings)"""
    x = g.x
    # threading clones of a site are the same program point
    opens = set(x.expand_sites(opens))
    closes = set(x.expand_sites(closes))
    problems = []
    seen = set()
    start = g.entry if start is None else start
    stack = [(start, 0, frozenset(), (start,))]
    exits = set(g.exits)
    entries = {i.entry: i.id for i in g.insts}
    # only conditions tested at two or more switch sites can correlate
    conds = {}
    for sid in x.switches():
        if len(g.nodes[sid].succs) > 1:
            ck = stable_cond(g, sid)
            if ck is not None:
                conds.setdefault(ck, set()).add(x.site(sid))
    tracked = {x.site(sid): ck for sid in x.switches() for ck in [stable_cond(g, sid)] if ck is not None and len(conds.get(ck, ())) > 1}
    steps = 0
    while stack:
        nid, st, known, trail = stack.pop()
        key = (nid, st, known)
        if key in seen:
            continue
        seen.add(key)
        steps += 1
        if steps > 400000:
            problems.append('state space too large')
            break
        n = g.nodes[nid]
        if nid in entries and known:
            known = frozenset(k for k in known if k[0][1] != entries[nid])
        if nid in opens:
            if st == 1:
                problems.append('second pin while a pin is held at %s' % x.describe(nid))
                continue
            st = 1
        elif nid in closes:
            if st == 0:
                problems.append('unpin without pin at %s' % x.describe(nid))
                continue
            st = 0
        if nid in exits:
            if st == 1:
                problems.append('return with the pin still held (path through %s)' % ', '.join(x.describe(t) for t in trail[-3:]))
            continue
        succs = n.succs
        if n.kind == 'block' and n.term['k'] == 'switch' and len(succs) > 1:
            ck = tracked.get(x.site(nid))
            if ck is not None:
                kd = dict(known)
                for eid in succs:
                    sw, v, oth = g.nodes[eid].edge
                    cls = 'z' if (v is not None and str(v) == '0') else 'nz'
                    if ck in kd and kd[ck] != cls:
                        continue
                    k2 = frozenset(list(known) + [(ck, cls)])
                    stack.append((eid, st, k2, trail + (eid,)))
                continue
        for s in succs:
            stack.append((s, st, known, trail[-4:] + (s,)))
    return sorted(set(problems))
