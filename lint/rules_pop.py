"""Population rules (handles, streams): P9a-f P10a-f W7 W9 W10 W13 W14 S5  (DESIGN.md section 4)."""
import re
from core import CheckError, short, short_fn
from engine import has_release, has_acquire, is_const, norm_rel

MASK_TAG = 9223372036854775807   # !(1 << 63): counts without the tag bit
from rules_send import FLAVOURS, WRITE_OPS, CAS_OPS, fns_mentioning, constructs, site_key


def callers_of(F, regex):
    """static call graph: crate functions whose own body calls a function matching regex"""
    r = re.compile(regex)
    out = {}
    for name, f in F.fns.items():
        for b in f['blocks']:
            if b['cleanup']:
                continue
            t = b['term']
            if t['k'] == 'call' and 'fn' in t:
                nm = t.get('resolved') or t['fn']
                if r.search(nm) or r.search(t['fn']):
                    out.setdefault(name, []).append(b['line'])
            # a function named as a value (passed as a callback) counts as called from here
            ops = list(t.get('args') or []) if t['k'] == 'call' else []
            for s_ in b['stmts']:
                if s_['k'] == 'assign':
                    rv = s_['rv']
                    ops += [o_ for o_ in [rv.get('op'), rv.get('a'), rv.get('b')] + list(rv.get('ops') or []) if isinstance(o_, dict)]
            for o_ in ops:
                if o_.get('k') == 'const' and o_.get('fn') and r.search(o_['fn']):
                    out.setdefault(name, []).append(b['line'])
    return out


def run(ctx):
    ctx.step(_p9, ctx)
    ctx.step(_p10, ctx)
    ctx.step(_w_signal, ctx)
    ctx.step(_w13_w14, ctx)
    ctx.step(_s5, ctx)


def _eq_const_edges(g, x, pred, const, want_true=True):
    """edges of switches testing  <atomic event satisfying pred> == const  (any syntactic form)"""
    t, f, _h = x.eq_tests(lambda a_, b_: a_[0] == 'call' and x.rep(a_[1]) in x.atoms and pred(x.atoms[x.rep(a_[1])]) and is_const(b_, const))
    return t if want_true else f


def _p9(ctx):
    F = ctx.F
    drops = [ctx.fn1(r'^<multiqueue::InnerRecv<.*> as std::ops::Drop>::drop$'),
             ctx.fn1(r'^<multiqueue::FutInnerRecv<.*> as std::ops::Drop>::drop$'),
             ctx.fn1(r'^<multiqueue::FutInnerUniRecv<.*> as std::ops::Drop>::drop$')]
    from rules_send import _no_reader_bit
    nr_bit = _no_reader_bit(ctx)
    for d in drops:
        g = ctx.graph(d)
        x = g.x
        rsub = short_fn(d).replace('::drop', '') + '|' + short(F.fns[d]['impl_self'].get('adt'))
        alive_edges = set()
        for sid in x.switches():
            e = g.switch_expr(sid)
            if any(s[0] == 'fld' and s[2] == 'InnerRecv.alive' for s in g.walk(e)):
                # an assertion about the flag (`debug_assert!(self.alive)`: one side only panics) is not the guard
                sides = [x.switch_edges(sid, 'zero'), x.switch_edges(sid, 'nonzero')]
                if any(es and not any((x.reach_from(e_) | {e_}) & set(g.exits) for e_ in es) for es in sides):
                    continue
                alive_edges.update(x.switch_edges(sid, 'nonzero'))
        if not alive_edges and 'Fut' in rsub:
            # the explicit Drop does not unsubscribe itself (it leaves that to the destructor of its
            # InnerRecv field, which runs AFTER this body): whatever it notifies is notified too early
            pn = x.inlined(r'FutWait as wait::Wait>::notify$|FutWait::notify_all$')
            ctx.add('P11e', 'T-MUST', d, False,
                    'Drop for %s wakes the producer list without having unsubscribed first (the stream is only removed afterwards by the field destructor): '
                    'a woken sink task still finds the queue full, parks again, and nothing notifies it after the removal' % rsub.split('|')[-1] if pn else
                    'Drop for %s neither unsubscribes nor notifies the producer list' % rsub.split('|')[-1], sub=rsub + '|prod')
            continue
        ctx.floor('P9a', len(alive_edges), 1, 'test of InnerRecv.alive in %s' % short_fn(d))
        decs = [a for a in x.atoms_on('ReaderMeta.num_consumers') if a.op in WRITE_OPS]
        listcas = [a for a in x.atoms_on('ReadCursor.readers') if a.op in WRITE_OPS]
        setr = [a for a in x.atoms_on('AtomicSignal.flags') if a.op == 'fetch_or' and str(g.strip(g.call_args(a.nid)[1])[1]) == nr_bit]
        rtok = x.inlined(r'MemoryManager::remove_token$')
        events = [a.nid for a in decs + listcas + setr] + list(rtok)
        ok = all(x.dom(alive_edges, n) for n in events)
        ctx.add('P9a', 'T-GUARD', d, ok, 'all unsubscribe effects are under the alive==true edge' if ok else
                'an unsubscribe effect is reachable with alive==false (double unsubscribe)', sub=rsub + '|guard')
        # alive cleared on every alive path
        clears = []
        for n in g.nodes:
            if n.id in g.live() and n.kind == 'block':
                for s in n.stmts:
                    if s['k'] == 'assign' and s['pl']['p'] and isinstance(s['pl']['p'][-1], dict) and s['pl']['p'][-1].get('f') == 'alive' \
                            and s['rv']['k'] == 'use' and s['rv']['op']['k'] == 'const' and str(s['rv']['op'].get('v')) == '0':
                        clears.append(n.id)
        # the destructor unsubscribes unconditionally: no path through it avoids the `alive` test (a handle dropped
        # while its thread unwinds, or under any other condition, still has to leave its stream)
        alive_sw = {g.nodes[e_].edge[0] for e_ in alive_edges}
        if alive_sw:
            oku = not (x.reachable_entry(blocked=x._exp(alive_sw)) & set(g.exits))
            ctx.add('P9a', 'T-MUST', d, oku, 'every path through the destructor reaches the unsubscription' if oku else
                    'the destructor can return without unsubscribing the handle (the unsubscription is conditional): the stream of a handle dropped on that path stays in the list for ever and keeps limiting the senders',
                    sub=rsub + '|always')
        okc = bool(clears) and all(x.must(e_, set(clears)) for e_ in alive_edges)
        ctx.add('P9a', 'T-MUST', d, okc, 'alive is cleared on every alive path (at most one unsubscribe per handle)' if okc else
                'alive is not cleared on every path that unsubscribes', sub=rsub + '|clear')
        # b: count decrement, and list removal exactly on the "I was the last consumer" edge
        okd = len(decs) == 1 and decs[0].op == 'fetch_sub' and all(x.must(e_, {decs[0].nid}) for e_ in alive_edges)
        ctx.add('W7', 'T-MUST', d, okd, 'consumer count decremented exactly once on every alive path' if okd else
                'consumer count is not decremented exactly once per alive drop', sub=rsub + '|dec')
        last_edges = _eq_const_edges(g, x, lambda a: a.on('ReaderMeta.num_consumers') and a.op == 'fetch_sub', 1)
        okb = bool(last_edges) and bool(listcas) and all(x.dom(last_edges, a.nid) for a in listcas)
        succ = set()
        for a in listcas:
            for sid in x.switches():
                e = g.strip(g.switch_expr(sid))
                if e[0] == 'discr' and g.strip(e[1])[0] == 'call' and x.rep(g.strip(e[1])[1]) == a.nid:
                    succ.update(x.switch_edges(sid, '0'))
        okb2 = bool(succ) and all(x.must(e_, succ) for e_ in last_edges)
        ctx.add('P9b', 'T-GUARD', d, okb and okb2,
                'the stream is removed from the list exactly on the edge "previous consumer count == 1"' if okb and okb2 else
                'stream removal: under the last-consumer edge=%s, performed on every such path=%s' % (okb, okb2), sub=rsub + '|last')
        # c: no-reader bit exactly on "published list is now empty", before the callback
        empty_edges = set()
        for sid in x.switches():
            e = g.strip(g.switch_expr(sid))
            if e[0] == 'call' and re.search(r'(Vec|slice)(::<.*>)?::is_empty$', g.call_name(e[1]) or ''):
                if any(a.on('ReadCursor.readers') for a in x.loads_in(g.call_args(e[1])[0])):
                    empty_edges.update(x.switch_edges(sid, 'nonzero'))
        _z, _nz, _h = x.zero_tests(lambda e_: e_[0] == 'call' and bool(re.search(r'(Vec|slice)(::<.*>)?::len$', g.call_name(e_[1]) or '')) and
                                   any(a.on('ReadCursor.readers') for a in x.loads_in(g.call_args(e_[1])[0])))
        empty_edges.update(_z)
        okc1 = bool(setr) and bool(empty_edges) and all(x.dom(empty_edges, a.nid) for a in setr)
        okc2 = bool(empty_edges) and all(x.must(e_, {a.nid for a in setr}) for e_ in empty_edges)
        ctx.add('P9c', 'T-GUARD', d, okc1 and okc2, 'the no-reader bit is set exactly on the "stream list is now empty" edge' if okc1 and okc2 else
                'no-reader bit: only when the list is empty=%s, always when it is=%s' % (okc1, okc2), sub=rsub + '|set')
        # d: callback runs on every alive path after the state change
        # the callback: the closure (or named function) that this destructor itself passes down
        cb = [n_.id for n_ in g.nodes if n_.id in g.live() and n_.call is not None and n_.call['inlined'] is not None
              and str(n_.call['how']).startswith(('closure', 'fnitem'))
              and ((F.fns.get(n_.call['name']) or {}).get('parent') == d or
                   ((F.fns.get(n_.call['name']) or {}).get('parent') in F.fresh and n_.fn not in F.xfns))]
        cb = sorted({x.rep(c_) for c_ in cb})
        okd1 = bool(cb) and all(x.must(e_, set(cb)) for e_ in alive_edges)
        okd2 = all(not x.reaches(c, a.nid) for c in cb for a in decs + listcas + setr)
        ctx.add('P9d', 'T-MUST', d, okd1 and okd2, 'the drop callback runs on every alive path, after the state changes' if okd1 and okd2 else
                'drop callback: on every alive path=%s, after the state change=%s' % (okd1, okd2), sub=rsub + '|callback')
        if 'Fut' in rsub:
            # the callback notifies the producer list
            pn = [n for n in x.inlined(r'FutWait as wait::Wait>::notify$|FutWait::notify_all$')
                  if any('prod_wait' in p or True for p in ['x'])]
            drains = [n for n in x.ext_calls(r'VecDeque(::<.*>)?::drain$')]
            from_prod = False
            for n in pn:
                inst = g.nodes[n].call['inlined']
                e = g.ev_local(inst, 1)
                for s in g.deep_walk(e):
                    if s[0] == 'fld' and s[2].endswith('.prod_wait'):
                        from_prod = True
            oke = bool(pn) and from_prod and all(x.must(e_, set(pn)) for e_ in alive_edges)
            ctx.add('P11e', 'T-MUST', d, oke, 'dropping a futures receiver drains the producer task list on every alive path' if oke else
                    'dropping a futures receiver does not notify the producer list (a sink task parked on Full is never woken)', sub=rsub + '|prod')
        # e: token pairing
        oke = bool(rtok) and all(x.must(e_, set(rtok)) for e_ in alive_edges)
        ctx.add('P9e', 'T-PAIR', d, oke, 'the handle\'s reclamation token is removed on every alive drop path' if oke else
                'remove_token is not reached on every alive drop path (only when this handle is the last consumer of its stream): the token leaks and, never being updated again, blocks every later reclamation cycle',
                sub=rsub + '|token')
    # f: unsubscribe() result
    for nm in (r'^multiqueue::InnerRecv::<.*>::unsubscribe$', r'^multiqueue::FutInnerRecv::<.*>::unsubscribe$', r'^multiqueue::FutInnerUniRecv::<.*>::unsubscribe$'):
        fn = ctx.fn1(nm)
        g = ctx.graph(fn)
        x = g.x
        r = g.strip(g.ev_local(g.root_inst, 0))
        ok = False
        ld = None
        if r[0] == 'bin' and r[1] == 'Eq':
            for (p, q) in ((r[2], r[3]), (r[3], r[2])):
                p, q = g.strip(p), g.strip(q)
                if p[0] == 'call' and x.rep(p[1]) in x.atoms and x.atoms[x.rep(p[1])].on('ReaderMeta.num_consumers') and x.atoms[x.rep(p[1])].op == 'load' \
                        and q[0] == 'c' and str(q[1]) == '1':
                    ok = True
                    ld = x.rep(p[1])
        if not ok:
            # the same answer spelled with control flow (`if n == 1 { true } else { false }`, a two-valued enum mapped
            # back to bool, ..): every `true` that can be returned lies behind the equal edge of the test of the
            # consumer count against one, every `false` behind the other edge
            cts = []
            for t_ in x.tests(('Eq',)):
                for (p, q) in ((t_.a, t_.b), (t_.b, t_.a)):
                    if p[0] == 'call' and x.rep(p[1]) in x.atoms and x.atoms[x.rep(p[1])].on('ReaderMeta.num_consumers') \
                            and x.atoms[x.rep(p[1])].op == 'load' and is_const(q, 1):
                        cts.append((t_, x.rep(p[1])))
            g._fwd_calls = set()
            origins, allc = g._const_origins(g.root_inst, 0, set())
            if cts and origins and allc and len({l_ for (_, l_) in cts}) == 1:
                te = set()
                fe = set()
                for (t_, _) in cts:
                    te.update(t_.true)
                    fe.update(t_.false)
                live = g.live()
                ok = True
                for (o, v) in origins:
                    for m in g.members(o):
                        if m in live and not x.dom(te if str(v) != '0' else fe, m):
                            ok = False
                if ok:
                    ld = cts[0][1]
        dropn = [n.id for n in g.nodes if n.id in g.live() and n.kind == 'block' and n.term['k'] == 'drop' and 'Recv' in n.term['dty']['s']]
        ok2 = ld is not None and all(not x.reaches(dn, ld) for dn in dropn) and bool(dropn)
        ctx.add('P9f', 'T-FLOW', fn, ok and ok2, 'unsubscribe() returns (consumers == 1) evaluated before the handle is dropped' if ok and ok2 else
                'unsubscribe() does not return "consumer count == 1" read before the drop', sub=short_fn(fn))


def _p10(ctx):
    F = ctx.F
    add = ctx.fn1(r'^read_cursor::ReadCursor::add_stream$')
    rem = ctx.fn1(r'^read_cursor::ReadCursor::remove_reader$')
    gmd = ctx.fn1(r'^read_cursor::ReadCursor::get_max_diff$')
    for fn in (add, rem):
        g = ctx.graph(fn)
        x = g.x
        sub = short_fn(fn)
        cas = [a for a in x.atoms_on('ReadCursor.readers') if a.op in WRITE_OPS]
        ctx.floor('P10b', len(cas), 1, 'publication of the stream list in %s' % sub)
        obs = {a.nid for a in x.atoms_on('ReadCursor.readers') if a.op == 'load' or a.op in CAS_OPS}
        allocs = x.inlined(r'^alloc::allocate$')
        alloc_res = {}
        for n in allocs:
            inst = g.nodes[n].call['inlined']
            alloc_res[n] = x.calls_in(g.ev_local(inst, 0))
        deallocs = x.inlined(r'^alloc::deallocate$')
        frees = x.inlined(r'MemoryManager::free$')
        for a in cas:
            C = a.nid
            okk = a.op in CAS_OPS
            ctx.add('W9', 'T-WHO', fn, okk, 'the stream list is replaced by compare-exchange only' if okk else 'stream list pointer written by %s' % a.op, where=g.where(C), sub=sub + '|cas')
            if not okk:
                continue
            args = g.call_args(C)
            exp_src = x.calls_in(args[1])
            new_src = x.calls_in(args[2])
            # b: the new list is a fresh allocation holding clone(current list) (+ push / retain)
            fresh = [n for n in allocs if alloc_res[n] & new_src]
            okf = len(fresh) == 1
            # copies of the old list: `old.clone()` / `to_vec()`, or a fresh Vec filled by `extend_from_slice(&old)` /
            # `extend(old.iter()..)`.  (copy call, source argument, calls whose result is the copy)
            copies = []
            for n in x.ext_calls(r'clone::Clone::clone$|Vec(::<.*>)?::clone$|slice::<impl \[T\]>::to_vec'):
                if any(p.endswith('ReaderGroup.readers') for p in g.locpaths(g.call_args(n)[0])):
                    copies.append((n, g.call_args(n)[0], {n}))
            for n in x.ext_calls(r'Vec(::<.*>)?::extend_from_slice$|Extend(<.*>)?>?::extend$|Vec(::<.*>)?::extend$'):
                a_ = g.call_args(n)
                if len(a_) > 1 and any(p.endswith('ReaderGroup.readers') for s_ in [a_[1]] for p in g.locpaths(s_)) or \
                        len(a_) > 1 and any(p.endswith('ReaderGroup.readers') for c_ in x.calls_in(a_[1]) for p in g.locpaths(g.call_args(c_)[0]) if g.call_args(c_)):
                    copies.append((n, a_[1], set(x.calls_in(a_[0]))))
            clones = [c_[0] for c_ in copies]
            okcl = False
            for (cn, srcarg, _res) in copies:
                src = {s.nid for s in x.loads_in(srcarg) if s.on('ReadCursor.readers')}
                exp_obs = {s.nid for s in x.loads_in(args[1]) if s.on('ReadCursor.readers')}
                if src and src == exp_obs:
                    okcl = True
            groups = x.aggs(r'read_cursor::ReaderGroup::ReaderGroup$')
            okg = False
            for (nid, si, rv) in groups:
                e = x.agg_expr(nid, si)
                ce = x.calls_in(e)
                if any(res_ & ce for (_cn, _sa, res_) in copies) and (x.reaches(nid, C) or nid in x.reachable_entry()):
                    okg = True
            ctx.add('P10b', 'T-FLOW', fn, okf and okcl and okg,
                    'the published list is a fresh group built from a clone of the list the CAS expects' if okf and okcl and okg else
                    'published list: fresh allocation=%s, cloned from the expected list=%s, group built from that clone=%s' % (okf, okcl, okg),
                    where=g.where(C), sub=sub + '|superset')
            if fn == add:
                pushes = [n for n in x.ext_calls(r'Vec(::<.*>)?::push$')]
                newpos = [n for n in allocs if any(s[0] == 'agg' and s[2].endswith('Reader::Reader') for s in [('x',)]) or True]
                okp = bool(pushes) and all(x.dom(set(clones), p) for p in pushes) and all(x.dom(set(pushes), nid) for (nid, si, rv) in groups)
                ctx.add('P10b', 'T-MUST', fn, okp, 'the new stream is pushed onto the cloned list before the group is built' if okp else
                        'new stream is not added to the cloned list before publication', sub=sub + '|push')
            else:
                rets = x.ext_calls(r'Vec(::<.*>)?::retain(_mut)?$')
                okr = bool(rets) and all(x.dom(set(clones), r_) for r_ in rets) and all(x.dom(set(rets), nid) for (nid, si, rv) in groups)
                # predicate keeps everything except this stream:  *pt != reader.pos
                pred_ok = False
                for r_ in rets:
                    for ci in g.nodes[r_].call['closure_insts']:
                        nr_ = norm_rel(g, g.ev_local(ci, 0))
                        if nr_ and nr_[0] == 'Eq' and not nr_[3]:
                            sides = [nr_[1], nr_[2]]
                            if any(any(s[0] == 'hofarg' for s in g.walk(sd)) for sd in sides) and \
                                    any(any(s[0] == 'fld' and s[2] == 'Reader.pos' for s in g.walk(sd)) for sd in sides):
                                pred_ok = True
                ctx.add('P10b', 'T-MUST', fn, okr and pred_ok, 'the cloned list keeps every stream except the one being removed' if okr and pred_ok else
                        'removal does not build "clone(current) without this stream" (retain present=%s, predicate "!= this stream"=%s)' % (okr, pred_ok), sub=sub + '|retain')
            # c: failure edge releases the speculative objects and retries from the observed pointer
            succ, fail = set(), set()
            for sid in x.switches():
                e = g.strip(g.switch_expr(sid))
                if e[0] == 'discr' and g.strip(e[1])[0] == 'call' and x.rep(g.strip(e[1])[1]) == C:
                    succ.update(x.switch_edges(sid, '0'))
                    fail.update(x.switch_edges(sid, '1'))
            missing = []
            for n in allocs:
                # (an allocation made once before the retry loop is kept across retries: nothing to release per attempt)
                if fail and not any(x.reaches(f_, n) for f_ in fail):
                    continue
                ds = [d for d in deallocs if alloc_res[n] & x.calls_in(g.call_args(d)[0])]
                if not ds or not all(x.must(f_, set(ds), exits=set(g.exits) | {C}) for f_ in fail):
                    missing.append(x.describe(n))
            okc = bool(fail) and not missing
            ctx.add('P10c', 'T-MUST', fn, okc, 'CAS failure: every speculative allocation of the iteration is released before retrying' if okc else
                    'CAS failure path leaks speculative allocation(s): %s' % missing, where=g.where(C), witness=missing, sub=sub + '|fail')
            okretry = C in exp_src or any(x.rep(c_) == C for c_ in exp_src)
            ctx.add('P10c', 'T-FLOW', fn, okretry, 'the retry expects the pointer the failed CAS returned', where=g.where(C), sub=sub + '|retry')
            # direct deallocation only of never-published objects (W12 part)
            for d in deallocs:
                srcs = x.calls_in(g.call_args(d)[0])
                pub = {s.nid for s in x.loads_in(g.call_args(d)[0]) if s.on('ReadCursor.readers')}
                is_meta = any(s[0] == 'fld' and s[2] == 'Reader.meta' for s in g.deep_walk(g.call_args(d)[0]))
                okd_ = (x.dom(fail, d) and not pub) or (is_meta and not pub)
                ctx.add('W12', 'T-GUARD', fn, okd_, 'direct deallocation only of never-published objects (CAS-failure edge) or of the stream\'s private meta block' if okd_ else
                        'a published object is freed directly at %s instead of through the deferred path' % g.where(d), where=g.where(d), sub=sub + '|dealloc.bb%d' % g.nodes[d].bb)
                # a block whose type owns other memory (the ReaderGroup owns its Vec) is emptied before it is handed back:
                # deallocate() only returns the block itself
                cls = ((g.nodes[d].term.get('gtys') or [None])[0] or {}).get('adt')
                if cls in F.adts and any(f_.get('needs_drop') for v_ in F.adts[cls]['variants'] for f_ in v_['fields']):
                    destroys = [n_ for n_ in x.ext_calls(r'ptr::read$|ptr::drop_in_place$') if srcs & x.calls_in(g.call_args(n_)[0]) or
                                g.strip(g.call_args(n_)[0]) == g.strip(g.call_args(d)[0])]
                    okdd = bool(destroys) and x.dom(set(destroys), d)
                    ctx.add('P10c', 'T-MUST', fn, okdd, 'the contents of a %s are destroyed before its block is deallocated' % short(cls) if okdd else
                            '%s deallocates a %s without destroying its contents first (ptr::read / drop_in_place): what it owns (the list buffer) is leaked' % (short_fn(fn), short(cls)),
                            where=g.where(d), sub=sub + '|contents.bb%d' % g.nodes[d].bb)
            # d: success: the old list is retired through the manager
            okfree = False
            for fnode in frees:
                inst = g.nodes[fnode].call['inlined']
                a0 = g.ev_local(inst, 2)
                if {s.nid for s in x.loads_in(a0) if s.on('ReadCursor.readers')} and x.dom(succ, fnode):
                    okfree = True
            okm = bool(succ) and okfree and all(x.must(s_, set(frees)) for s_ in succ)
            ctx.add('P10d', 'T-MUST', fn, okm, 'CAS success: the replaced list is handed to the deferred-free manager' if okm else
                    'CAS success: the replaced list is not retired through MemoryManager::free on every path', where=g.where(C), sub=sub + '|retire')
            if fn == rem:
                posfree = False
                for fnode in frees:
                    inst = g.nodes[fnode].call['inlined']
                    a0 = g.ev_local(inst, 2)
                    if any(s[0] == 'fld' and s[2] == 'Reader.pos' for s in g.deep_walk(a0)):
                        posfree = x.dom(succ, fnode)
                # ... and its private consumer counter is released (directly: only this stream's own handles ever read it)
                metas = [d_ for d_ in list(deallocs) + list(frees)
                         if any(s_[0] == 'fld' and s_[2] == 'Reader.meta' for s_ in g.deep_walk(g.call_args(d_)[0] if d_ in deallocs else g.ev_local(g.nodes[d_].call['inlined'], 2)))]
                okmeta = bool(metas) and bool(succ) and all(x.must(s_, set(metas)) for s_ in succ)
                ctx.add('P10d', 'T-MUST', fn, okmeta, 'the removed stream\'s consumer counter block is released' if okmeta else
                        'removing a stream does not release its consumer counter block (ReaderMeta) on the success path: one block leaks per removed stream', sub=sub + '|meta')
                ctx.add('P10d', 'T-MUST', fn, posfree, 'the removed stream\'s position block is retired through the manager (writers may still scan it)' if posfree else
                        'the removed stream\'s ReaderPos is not retired through the deferred path', sub=sub + '|pos')
                # e: last_pos
                sets = [n for n in x.ext_calls(r'Cell(::<.*>)?::set$') if any(p.endswith('ReadCursor.last_pos') for p in g.locpaths(g.call_args(n)[0]))]
                one, _f, _h = x.eq_tests(lambda a_, b_: a_[0] == 'call' and bool(re.search(r'Vec(::<.*>)?::len$', g.call_name(a_[1]) or '')) and is_const(b_, 1))
                oke = bool(sets) and bool(one) and all(x.dom(one, s_) and x.dom(succ, s_) for s_ in sets) and all(x.must(o_, set(sets)) for o_ in one)
                okv = all(any(s.on('Reader.pos/ReaderPos.pos_data') for s in x.loads_in(g.call_args(s_)[1])) for s_ in sets)
                ctx.add('P10e', 'T-GUARD', fn, oke and okv, 'last_pos := position of the removed stream, exactly when the old list had one stream' if oke and okv else
                        'last_pos not recorded exactly on the "old list had one reader" edge with this stream\'s position', sub=sub + '|last_pos')
        if fn == add:
            # a: initial position derives from the parent's position read during the call
            pos_aggs = x.aggs(r'read_cursor::ReaderPos::ReaderPos$')
            ctx.floor('P10a', len(pos_aggs), 1, 'ReaderPos{..} construction reachable from ReadCursor::add_stream')
            for (nid, si, rv) in pos_aggs:
                e = x.agg_expr(nid, si)
                lds = x.loads_in(e)
                vals = []
                for s in g.walk(e):
                    if s[0] == 'call' and re.search(r'Atomic(Usize)?(::<.*>)?::new$', g.call_name(s[1]) or ''):
                        vals.append(g.call_args(s[1])[0])
                srcs = [a for v in vals for a in x.loads_in(v)]
                parent = [a for a in srcs if any(p.startswith('<Reader>/Reader.pos/ReaderPos.pos_data') for p in a.paths)]
                arith = [s for v in vals for s in g.walk(v) if s[0] in ('bin', 'un') or s[0] == 'c']
                # an alternative that is no load at all (a position handed in by the caller, an unknown value) is not the
                # parent's position either
                foreign = [s for v in vals for s in g.walk(v) if s[0] in ('param', 'unknown', 'hofarg')]
                # .. nor is the answer of a call that is no atomic load (a handle-local cache read with Cell::get)
                ldn = {x.rep(a.nid) for a in srcs}
                foreign += [s for v in vals for s in g.walk(v) if s[0] == 'call' and x.rep(s[1]) not in ldn and
                            re.search(r'Cell(::<.*>)?::(get|take|replace)$|Option(::<.*>)?::(unwrap_or\w*|take)$', g.call_name(s[1]) or '')]
                oka = bool(vals) and bool(parent) and len(parent) == len(srcs) and not arith and not foreign
                # the position may also be given to the new stream by a store of its own before the list that contains it
                # is published (cells allocated once, placed anew in every attempt): then that store decides
                pstores = [a for a in x.atoms_on('ReaderPos.pos_data', ops={'store'}) if not any(p.startswith('<Reader>/') for p in a.paths)]
                if pstores:
                    def _tagmask(s_):
                        return s_[0] == 'bin' and s_[1] == 'BitAnd' and any(is_const(g.strip(o_), MASK_TAG) for o_ in (s_[2], s_[3]))
                    okv = True
                    for a in pstores:
                        v = g.call_args(a.nid)[1]
                        srcs = list(x.loads_in(v))
                        parent = [l_ for l_ in srcs if any(p.startswith('<Reader>/Reader.pos/ReaderPos.pos_data') for p in l_.paths)]
                        arith = [s_ for s_ in g.walk(v) if (s_[0] in ('bin', 'un') and not _tagmask(s_)) or (s_[0] == 'c' and not is_const(s_, MASK_TAG))]
                        foreign = [s_ for s_ in g.walk(v) if s_[0] in ('param', 'unknown', 'hofarg')]
                        okv = okv and bool(parent) and len(parent) == len(srcs) and not arith and not foreign
                    pn = {a.nid for a in pstores}
                    # placed before every publication attempt, never after one succeeded
                    oka = okv and x.dom(pn, C) and not any(x.reaches(s_, p_) for s_ in succ for p_ in pn)
                ctx.add('P10a', 'T-FLOW', fn, oka, 'the new stream starts at the parent\'s position, loaded during the call' if oka else
                        'the new stream\'s initial position is not (only) the parent\'s current position (sources: %s, arithmetic/constants: %s)'
                        % ([sorted(a.paths)[0] for a in srcs] + ['<value handed in by the caller>' for _ in foreign[:1]], bool(arith)), where=x.where_stmt(nid, si), sub=sub + '|startpos')
                # the snapshot is still the parent's position when the new stream becomes visible to the writers: either
                # nobody else can move the parent (this handle is the stream's only consumer, tested), or the position is
                # read again after the publication and the stream is handed out only if it did not move.  Otherwise a
                # sibling handle can consume in between, the writers (who did not see the new stream yet) overwrite those
                # slots and cache a tail beyond the snapshot; the new stream then appears *behind* the cached tail, the
                # cache is pulled back, the equality test "head - N == tail" is never met again and back-pressure is gone
                if not pstores:
                    ploads = [a for a in x.atoms_on('ReaderPos.pos_data', ops={'load'}) if any(p.startswith('<Reader>/Reader.pos/ReaderPos.pos_data') for p in a.paths)]
                    one_e, _f1, _h1 = x.eq_tests(lambda a_, b_: a_[0] == 'call' and x.rep(a_[1]) in x.atoms and x.atoms[x.rep(a_[1])].on('ReaderMeta.num_consumers') and is_const(b_, 1))
                    sole = bool(one_e) and x.dom(set(one_e), C)
                    reval = set()
                    for t_ in x.tests(('Eq',)):
                        for (p_, q_) in ((t_.a, t_.b), (t_.b, t_.a)):
                            lp = [l_ for l_ in x.loads_in(p_) if l_ in ploads and x.dom(succ, l_.nid)]
                            lq = [l_ for l_ in x.loads_in(q_) if l_ in ploads and not x.dom(succ, l_.nid)]
                            if lp and lq:
                                reval.update(t_.true)
                    okv2 = sole or (bool(reval) and all(x.dom(reval, ex) for ex in g.exits))
                    ctx.add('P10a', 'T-DOM', fn, okv2, 'the position snapshot is still valid when the new stream is published (sole consumer, or re-validated after the publication)' if okv2 else
                            'the parent position is read once before the list with the new stream is published and never looked at again: when another handle of the parent stream consumes in between, the new stream appears behind the '
                            'writers\' cached tail (values already overwritten); the cache is pulled back and the fullness test `head - N == tail` is never met again - the new stream delivers nothing and back-pressure is lost on every stream',
                            where=g.where(C), sub=sub + '|snapshot-valid')
                masks = [s for s in g.walk(e) if s[0] == 'fld' and s[2] == 'CountedIndex.mask']
                okm = any(any(p.startswith('<Reader>/Reader.pos/ReaderPos.pos_data') for p in g.locpaths(('ref', s))) for s in masks)
                ctx.add('P15w', 'T-FLOW', fn, okm, 'the new stream uses the parent\'s wrap (same count->slot map)' if okm else 'new stream wrap does not derive from the parent', sub=sub + '|wrap')
    # the destructor of the cursor hands the last list back the same way: contents first
    for dn in F.find_fns(r'^<read_cursor::ReadCursor as std::ops::Drop>::drop$'):
        g = ctx.graph(dn)
        x = g.x
        for d in x.inlined(r'^alloc::deallocate$'):
            cls = ((g.nodes[d].term.get('gtys') or [None])[0] or {}).get('adt')
            if cls in F.adts and any(f_.get('needs_drop') for v_ in F.adts[cls]['variants'] for f_ in v_['fields']):
                srcs = x.calls_in(g.call_args(d)[0])
                destroys = [n_ for n_ in x.ext_calls(r'ptr::read$|ptr::drop_in_place$') if srcs & x.calls_in(g.call_args(n_)[0]) or
                            g.strip(g.call_args(n_)[0]) == g.strip(g.call_args(d)[0])]
                okdd = bool(destroys) and x.dom(set(destroys), d)
                ctx.add('P10c', 'T-MUST', dn, okdd, 'the contents of a %s are destroyed before its block is deallocated' % short(cls) if okdd else
                        '%s deallocates a %s without destroying its contents first (ptr::read / drop_in_place): what it owns (the list buffer) is leaked' % (short_fn(dn), short(cls)),
                        where=g.where(d), sub=short_fn(dn) + '|contents.bb%d' % g.nodes[d].bb)
    # f: scan re-validation
    g = ctx.graph(gmd)
    x = g.x
    loads = [a for a in x.atoms_on('ReadCursor.readers') if a.op == 'load']
    scans = [a for a in x.atoms_on('ReaderPos.pos_data') if a.op == 'load']
    eq_edges = set()
    for t_ in x.tests(('Eq',)):
        l, r = t_.a, t_.b
        if l[0] == 'call' and r[0] == 'call' and x.rep(l[1]) in x.atoms and x.rep(r[1]) in x.atoms and \
                x.atoms[x.rep(l[1])].on('ReadCursor.readers') and x.atoms[x.rep(r[1])].on('ReadCursor.readers') and x.rep(l[1]) != x.rep(r[1]):
            first = [n for n in (x.rep(l[1]), x.rep(r[1])) if any(x.rep(s.nid) == n for a in scans for s in x.loads_in(g.call_args(a.nid)[0]))]
            second = [n for n in (x.rep(l[1]), x.rep(r[1])) if n not in first]
            if first and second and scans and all(x.reaches(a.nid, second[0], blocked=set(first)) for a in scans) and \
                    not any(x.reaches(second[0], a.nid, blocked=set(first)) for a in scans):
                eq_edges.update(t_.true)
    ok = bool(eq_edges) and all(x.dom(eq_edges, ex) for ex in g.exits)
    ctx.add('P10f', 'T-DOM', gmd, ok, 'the scan result is returned only when the list pointer re-loaded after the scan equals the one scanned' if ok else
            'get_max_diff can return a scan of a list that was replaced (and possibly freed) meanwhile', sub='revalidate')
    rg = ctx.fn1(r'^read_cursor::ReaderGroup::get_max_diff$')
    g = ctx.graph(rg)
    x = g.x
    nexts = x.ext_calls(r'iter::(traits::iterator::)?Iterator::next$|Iter(::<.*>)?.*::next$')
    scans = {a.nid for a in x.atoms_on('ReaderPos.pos_data') if a.op == 'load'}
    some_edges = set()
    for sid in x.switches():
        e = g.strip(g.switch_expr(sid))
        if e[0] == 'discr' and g.strip(e[1])[0] == 'call' and x.rep(g.strip(e[1])[1]) in nexts:
            some_edges.update(x.switch_edges(sid, '1'))
    ok = bool(nexts) and bool(scans) and bool(some_edges) and all(not (x.reach_from(e_, blocked=scans) & (set(nexts) | set(g.exits))) for e_ in some_edges)
    its = x.ext_calls(r'IntoIterator::into_iter$|::iter$')
    whole = any(any(p.endswith('ReaderGroup.readers') for p in g.locpaths(g.call_args(i)[0])) for i in its)
    ctx.add('P10f', 'T-LOOP', rg, ok and whole, 'the scan loads the position of every stream in the list' if ok and whole else
            'the scan can skip a stream of the list (an unconsumed value could be overwritten)', sub='all-streams')
    # result combines with max (monotone in every stream's distance): the returned value derives from the loop's accumulator
    # (value-level: not decided)


def _w_signal(ctx):
    F = ctx.F
    cs = callers_of(F, r'atomicsignal::AtomicSignal::set_reader$')
    unsub = ctx.fn1(r'^multiqueue::InnerRecv::<.*>::do_unsubscribe_with$')
    ok = set(cs) == {unsub}
    ctx.add('W10', 'T-WHO', unsub, ok, 'the no-reader bit is set only by the receiver unsubscribe path' if ok else
            'set_reader called from %s' % sorted(short_fn(c) for c in cs), sub='set_reader')
    cc = callers_of(F, r'atomicsignal::AtomicSignal::clear_reader$')
    ctx.add('W10', 'T-WHO', unsub, not cc, 'the no-reader bit is never cleared' if not cc else
            'clear_reader is called from %s: senders could succeed again after all receivers were gone' % sorted(short_fn(c) for c in cc), sub='clear_reader')
    # any other RMW on the flags word that can clear the bit
    fl = ctx.fn1(r'^atomicsignal::AtomicSignal::clear_epoch$')
    g = ctx.graph(fl)
    for a in g.x.atoms_on('AtomicSignal.flags', ops=WRITE_OPS):
        v = g.strip(g.call_args(a.nid)[1])
        okm = a.op == 'fetch_and' and v[0] in ('un', 'c')
        ctx.add('W10', 'T-FLOW', fl, okm, 'clear_epoch only masks the epoch bit' if okm else 'clear_epoch does not merely mask the epoch bit (%s of the whole signal word): it wipes the sticky no-reader bit, after which sends succeed again although every receiver is gone' % a.op, where=g.where(a.nid), sub='clear_epoch')
    # W7: who writes num_consumers
    cands = sorted({s_ for c_ in fns_mentioning(F, 'ReaderMeta', 'num_consumers') for s_ in ctx.subjects_for(c_)})
    ctx.floor('W7', len(cands), 3, 'functions naming ReaderMeta.num_consumers')
    # the counters of handles and positions are as wide as the address space: a narrower counter wraps to "one handle"
    # / to an old position while more handles (values) exist than it can count
    for (adt_, fld_, what_) in (('ReaderMeta', 'num_consumers', 'consumer handles of a stream'), ('MultiQueue', 'writers', 'sender handles'),
                                ('RefCnt', 'refcnt', 'pins of a slot'), ('CountedIndex', 'val', 'positions (count and slot index)'),
                                ('MemToken', 'epoch', 'reclamation epochs'), ('MemoryManager', 'epoch', 'reclamation epochs')):
        for name_, a_ in F.adts.items():
            if short(name_) != adt_:
                continue
            for f_ in a_['variants'][0]['fields']:
                if f_['name'] != fld_:      # (renamed private fields carry their reference name here, see roles.py)
                    continue
                ty_ = f_['ty']['s']
                okw = bool(re.search(r'Atomic(<(usize|isize|u64|i64|u128)>|Usize|Isize|U64|I64)$', ty_))
                ctx.add('W7', 'T-TYPE', ctx.fn1(r'^multiqueue::MultiQueue::<.*>::new_internal$'), okw, '%s.%s counts %s in a word-sized atomic' % (adt_, fld_, what_) if okw else
                        '%s.%s counts %s in `%s`: narrower than a word, it wraps while more of them exist than it can hold (a wrapped handle count reads "1": the single-consumer / single-producer fast paths are taken by several handles at once)'
                        % (adt_, fld_, what_, ty_), where='%s:%d' % (a_['file'], a_['line']), sub='width|%s.%s' % (adt_, fld_))
    clone = ctx.fn1(r'^<multiqueue::InnerRecv<.*> as std::clone::Clone>::clone$')
    callers_dup = set()
    for c in cands:
        g = ctx.graph(c)
        for a in g.x.atoms_on('ReaderMeta.num_consumers', ops=WRITE_OPS):
            okk = a.op in ('fetch_add', 'fetch_sub')
            cs2 = callers_of(F, re.escape(c) + '$')
            if a.op == 'fetch_add':
                okk = okk and set(cs2) <= {clone}
            else:
                okk = okk and set(cs2) <= {unsub}
            ctx.add('W7', 'T-WHO', c, okk, 'consumer count changed only by clone (+1) / unsubscribe (-1)' if okk else
                    'consumer count written by %s (callers: %s)' % (a.op, sorted(short_fn(k) for k in cs2)), where=g.where(a.nid), sub=short_fn(c) + '|' + a.op)


def _w13_w14(ctx):
    F = ctx.F
    # inner functions whose graph commits a position by plain store without Single-mode evidence (the view path)
    from rules_recv import _single_state_edges
    view_inner = []
    for name in F.fns:
        if not re.search(r'^multiqueue::(InnerRecv|FutInnerUniRecv|FutInnerRecv)::<.*>::\w+$|^<&?multiqueue::FutInner(Uni)?Recv<.*> as .*Stream>::poll$', name):
            continue
        g = ctx.graph(name, 'MPMC')
        x = g.x
        # (stores into the position of the handle's own stream; a cell allocated during the call belongs to a stream
        # nobody else can see yet)
        st = [a for a in x.atoms_on('ReaderPos.pos_data') if a.op == 'store' and any(not p_.startswith('<call:') for p_ in a.paths)]
        if not st:
            continue
        single = _single_state_edges(g, x, F)
        if any(not x.dom(single, a.nid) for a in st):
            view_inner.append(name)
    ctx.floor('W13', len(view_inner), 3, 'inner entry points of the direct-commit view path')
    uni_inner = {n for n in view_inner}
    # wrapper functions reaching them, transitively (static call graph)
    reach = set(view_inner)
    changed = True
    cg = {}
    for name, f in F.fns.items():
        cs = set()
        for b in f['blocks']:
            t = b['term']
            if t['k'] == 'call' and 'fn' in t:
                cs.add(t.get('resolved') or t['fn'])
                cs.add(t['fn'])
                for gt in (t.get('gtys') or []):
                    if gt and gt.get('closure'):
                        cs.add(gt['closure'])
            for s in b['stmts']:
                if s['k'] == 'assign' and s['rv']['k'] == 'agg' and s['rv']['ak'] == 'closure':
                    cs.add(s['rv']['closure'])
        cg[name] = cs
    while changed:
        changed = False
        for name, cs in cg.items():
            if name not in reach and cs & reach:
                reach.add(name)
                changed = True
    uni_types = set()
    for name in sorted(reach):
        f = F.fns[name]
        st = f.get('impl_self') or {}
        adt = st.get('adt') or (st.get('inner') or {}).get('adt')
        if f['kind'] == 'Closure':
            continue
        if adt is None:
            ctx.add('W13', 'T-WHO', name, False, 'free function %s reaches the direct-commit view path' % short_fn(name), sub='free')
            continue
        if short(adt) in ('InnerRecv',):
            continue   # the inner receiver itself is wrapped; its public wrappers are judged
        uni_types.add(adt)
    ctx.floor('W13', len(uni_types), 4, 'handle/iterator types from which the view path is reachable')
    clone_impls = {im['self_ty'].get('adt') for im in F.impls if (im.get('trait') or '').endswith('clone::Clone')}
    for adt in sorted(uni_types):
        okc = adt not in clone_impls
        ctx.add('W13', 'T-TYPE', adt, okc, '%s (can reach the direct-commit view path) is not Clone' % short(adt) if okc else
                '%s can reach the direct-commit view path but implements Clone: two handles could commit one stream position by plain store' % short(adt),
                where='%s:%d' % (F.adts[adt]['file'], F.adts[adt]['line']) if adt in F.adts else None, sub=short(adt) + '|noclone')
    # construction sites of Uni types (a helper that does not exist in the reference tree is analysed as part of the
    # functions that call it)
    built_by = {}
    for name, f in F.fns.items():
        built = set()
        for b in f['blocks']:
            if b['cleanup']:
                continue
            for s in b['stmts']:
                if s['k'] == 'assign' and s['rv']['k'] == 'agg' and s['rv']['ak'] == 'adt' and s['rv']['adt'] in uni_types:
                    built.add(s['rv']['adt'])
        if not built or f.get('from_expansion'):
            continue
        for sub_ in ctx.subjects_for(name):
            built_by.setdefault(sub_, set()).update(built)
    for name, built in sorted(built_by.items()):
        f = F.fns[name]
        g = ctx.graph(name, 'MPMC')
        x = g.x
        single_edges = _eq_const_edges(g, x, lambda a: a.on('ReaderMeta.num_consumers') and a.op == 'load', 1)
        for (nid, si, rv) in x.aggs('|'.join(re.escape(a) + '::' for a in built)):
            if x.home(nid) != g.root_inst:
                continue
            e = x.agg_expr(nid, si)
            guarded = bool(single_edges) and x.dom(single_edges, nid)
            moved = False
            fresh = False
            for s in g.deep_walk(e):
                if s[0] == 'param' and s[1] == g.root_inst:
                    ty = g.insts[s[1]].body['locals'][s[2]]['ty']
                    a_ = ty.get('adt') or (ty.get('inner') or {}).get('adt')
                    if a_ in uni_types:
                        moved = True   # moved out of / borrowed from an existing single-consumer handle
                if s[0] == 'agg' and s[2].endswith('InnerRecv::InnerRecv'):
                    # a brand-new stream created in this call
                    rd = s[4][s[3].index('reader')] if 'reader' in s[3] else None
                    if rd is not None and any(t[0] == 'agg' and t[2].endswith('ReaderState::Single') for t in g.deep_walk(rd)):
                        fresh = True
            ok = guarded or moved or fresh
            why = 'guarded by consumers==1' if guarded else ('moved out of an existing single-consumer handle' if moved else 'a fresh stream')
            ctx.add('W13', 'T-GUARD', name, ok, '%s built: %s' % (short(rv['adt']), why) if ok else
                    '%s constructed in %s without evidence that the stream has a single consumer' % (short(rv['adt']), short_fn(name)),
                    where=x.where_stmt(nid, si), sub=short(rv['adt']) + '|ctor')
    # W14: on a move-out queue a second stream may only be created by consuming the handle
    adders = callers_of(F, r'multiqueue::InnerRecv::<.*>::add_stream$')
    inner_add = ctx.fn1(r'^multiqueue::InnerRecv::<.*>::add_stream$')
    reach = {inner_add}
    changed = True
    while changed:
        changed = False
        for name, cs in cg.items():
            if name not in reach and cs & reach:
                reach.add(name)
                changed = True
    pubs = []
    for name in sorted(reach):
        f = F.fns[name]
        st = f.get('impl_self') or {}
        adt = st.get('adt')
        if not adt or 'MPMC' not in short(adt) or f['kind'] != 'AssocFn':
            continue
        pubs.append(name)
        self_ty = f['locals'][1]['ty'] if f['arg_count'] >= 1 else None
        by_value = self_ty is not None and self_ty['k'] == 'adt' and self_ty.get('adt') == adt
        ctx.add('W14', 'T-WHO', name, by_value,
                '%s creates a stream on a move-out queue only by consuming the handle (never two live streams)' % short_fn(name) if by_value else
                '%s(&self) creates a second live stream on a move-out (MPMC) queue: both streams bitwise-view and destroy every value (double drop / use after free)' % short_fn(name),
                sub='by-value')
    ctx.floor('W14', len(pubs), 1, 'MPMC wrapper methods reaching InnerRecv::add_stream')


def _s5(ctx):
    F = ctx.F
    ctors = [name for name in F.fns if constructs(F, name, 'InnerRecv') and not F.fns[name].get('from_expansion')]
    ctx.floor('S5', len(ctors), 1, 'InnerRecv{..} constructors')
    for c in ctors:
        g = ctx.graph(c, 'MPMC')
        x = g.x
        for (nid, si, rv) in x.aggs(r'multiqueue::InnerRecv::InnerRecv$'):
            if x.home(nid) != g.root_inst:
                continue
            e = x.agg_expr(nid, si)
            names = e[3]
            tok = e[4][names.index('token')]
            alive = g.strip(e[4][names.index('alive')])
            gt = x.inlined(r'MemoryManager::get_token$')
            tokcalls = x.calls_in(tok)
            fresh = False
            for n in gt:
                inst = g.nodes[n].call['inlined']
                if x.calls_in(g.ev_local(inst, 0)) & tokcalls:
                    fresh = True
            ok = fresh and alive[0] == 'c' and str(alive[1]) == '1'
            ctx.add('S5', 'T-SIB', c, ok, 'every receiver handle is built with a fresh token and alive=true' if ok else
                    'InnerRecv built in %s without a fresh token / alive=true' % short_fn(c), where=x.where_stmt(nid, si), sub='ctor')
    sctors = [name for name in F.fns if constructs(F, name, 'InnerSend') and not F.fns[name].get('from_expansion')]
    for c in sctors:
        g = ctx.graph(c, 'MPMC')
        x = g.x
        for (nid, si, rv) in x.aggs(r'multiqueue::InnerSend::InnerSend$'):
            if x.home(nid) != g.root_inst:
                continue
            e = x.agg_expr(nid, si)
            tok = e[4][e[3].index('token')]
            gt = x.inlined(r'MemoryManager::get_token$')
            fresh = any(x.calls_in(g.ev_local(g.nodes[n].call['inlined'], 0)) & x.calls_in(tok) for n in gt)
            ctx.add('S5', 'T-SIB', c, fresh, 'every sender handle is built with a fresh token' if fresh else 'InnerSend built without a fresh token', where=x.where_stmt(nid, si), sub='send-ctor')
