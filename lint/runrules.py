"""debug runner: python3 runrules.py FACTS module [module...]"""
import sys, time, importlib
from core import Facts, CheckError
from engine import Ctx
F = Facts(sys.argv[1])
ctx = Ctx(F)
t = time.time()
for m in sys.argv[2:]:
    mod = importlib.import_module(m)
    mod.run(ctx)
print('time %.2fs graphs %d' % (time.time() - t, ctx.stats['graphs']))
nok = sum(1 for r in ctx.results if r.ok)
print('results', len(ctx.results), 'ok', nok)
import collections
cnt = collections.Counter((r.rule, r.ok) for r in ctx.results)
print(sorted(cnt.items()))
for r in ctx.results:
    if not r.ok:
        print('VIOL', r.key(), r.flavour, r.where, '::', r.msg, r.witness[:3])
