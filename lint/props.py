"""property -> rules table (DESIGN.md section 5) and the texts that go into evidence."""

# rule id -> (group module, one-line statement)
RULES = {
    # ---- send
    'W1': ('rules_send', 'head is written only at the two claim sites of the send entry point (CAS: multi-writer, plain store: single-writer)'),
    'W2': ('rules_send', 'slot tags are stored only at queue construction and at the publication sites'),
    'W5': ('rules_send', 'tail cache written only by the reload in the send path; plain store only in single-writer mode'),
    'W6': ('rules_send', 'writers count changed only by Clone(+1)/Drop(-1) of the sender; senders built only by Clone or construction'),
    'W11': ('rules_send', 'QueueState::Uni built only at construction or on the writers==1 edge'),
    'P1a': ('rules_send', 'every claim is preceded, in every iteration, by the fullness test of the transaction being claimed'),
    'P1b': ('rules_send', 'capacity Full only after a fresh scan of the stream list in the same call'),
    'P1c': ('rules_send', 'claim dominated by the not-pinned edge of the claimed slot; pinned slot returns Full'),
    'P1d': ('rules_send', 'multi-writer claim is a CAS on the observed head; slot write dominated by its success edge'),
    'P1e': ('rules_send', 'after the claim: (drop-old iff untagged) -> write payload -> publish tag of the claimed count -> return'),
    'P1f': ('rules_send', 'payload moved exactly once: into the slot or back into the error'),
    'P1g': ('rules_send', 'claim advances head by exactly one'),
    'P2a': ('rules_send', 'plain-store claim only on state==Uni or on the writers==1 edge'),
    'P2b': ('rules_send', 'state:=Uni only on the writers==1 edge after an Acquire fence'),
    'P2c': ('rules_send', 'signal word examined before any claim'),
    'P2d': ('rules_send', 'successful send is followed by waiter.notify() when the waiter needs it'),
    'P2e': ('rules_send', 'Clone for the sender: source and copy Multi, writers+1 before the copy is returned'),
    'P14n': ('rules_send', 'waiter.notify() in try_send only behind needs_notify'),
    'C13map': ('rules_send', 'no-reader bit => Err(TrySendError::Disconnected(payload)), never a claim'),
    'O1': ('rules_send', 'publication is Release / licensing tag load is Acquire'),
    'O2': ('rules_send', 'position commit Release after the read; writer acquires before claiming'),
    # ---- recv
    'P3a': ('rules_recv', 'payload read only after tag==position of the same attempt; slot indexed by that position'),
    'P3b': ('rules_recv', 'shared stream: pin -> re-check position -> read -> unpin; pins balanced on every path incl. retry'),
    'P3c': ('rules_recv', 'pin skipped only on the consumers==1 edge'),
    'P3e': ('rules_recv', 'commit success -> Ok(value read); failed commit -> value forgotten (move-out) / dropped (clone-out), retry'),
    'P3f': ('rules_recv', 'Empty only after examining the current tag; Disconnected only after mismatch -> writers==0 -> acquire -> second look'),
    'P3g': ('rules_recv', 'commit advances the position by exactly one'),
    'P4': ('rules_recv', 'view: tag check -> closure -> destroy exactly once (move-out only) -> commit'),
    'P4a': ('rules_recv', 'view: closure only sees a slot whose tag equals the position'),
    'P4e': ('rules_recv', 'view: commit only after the closure'),
    'P5a': ('rules_recv', 'ReaderState::Single only for a fresh stream or on the consumers==1 edge after Acquire'),
    'P5b': ('rules_recv', 'plain-store commit only in Single mode (or on the Uni-typed view path)'),
    'P5c': ('rules_recv', 'Clone for the receiver raises the consumer count and marks Multi before copying the Reader'),
    'W3': ('rules_recv', 'slot payloads are touched only at the enumerated sites'),
    'W7': ('rules_recv', 'consumer count changed only by +1 (clone) / -1 (drop)'),
    'W8': ('rules_recv', 'pin count only changed by the shared-stream branch of try_recv'),
    'O3': ('rules_recv', 'second look is Acquire-ordered after writers==0'),
}

# property -> rule ids that decide its structural part
PROPS = {
    'C01': ['P1a', 'P1d', 'P1e', 'P1f', 'W1', 'W2', 'P3a', 'P3e', 'P4a', 'P5b', 'P2a', 'P5a', 'W11', 'O1'],
    'C02': ['W1', 'P1g', 'P3g', 'P1e', 'P3a', 'P4a', 'O1'],
    'C03': ['P1a', 'P1b', 'P1c', 'W5', 'O2'],
    'C04': ['P3a', 'P3b', 'P3c', 'P1c', 'P4', 'P4a', 'P4e', 'W3', 'O1', 'O2'],
    'C05': ['W3', 'P1e', 'P1f', 'P3e', 'P4'],
    'C06': ['P3b', 'P1b', 'W5', 'P3f'],
    'C07': ['P3f', 'W6', 'P2e', 'O3'],
    'C08': ['P2d'],
    'C12': ['W11', 'P2a', 'P2b', 'P2e', 'P5a', 'P5b', 'P5c', 'W6', 'W7'],
    'C13': ['C13map', 'P2c'],
    'C18': ['P14n'],
}

UNDECIDED = {
    'C01': 'that the per-step obligations compose to exactly-once over all interleavings (linearizability); value-level arithmetic of matches_previous/past/masks',
    'C02': 'real-time order between producers and cross-stream agreement as behaviours over interleavings',
    'C03': 'the arithmetic (head-N==tail as equality test, max vs min, get_valid_wrap rounding) and stale-cache race windows',
    'C04': 'sufficiency of the pin handshake under weak memory; torn reads as a behaviour',
    'C05': 'that [last_pos, head) is the unconsumed range on every teardown order; panics inside user code',
    'C06': 'the quiescent-state equality with the model; the add_stream race with a concurrently advancing parent',
    'C07': '"drains everything first" as a behaviour over interleavings',
    'C08': 'liveness over schedules; fairness of OS primitives',
    'C09': 'value-level comparison of every return value with a model over call sequences; get_valid_wrap arithmetic; absence of panics in general',
    'C10': 'the no-gap property when other consumers of the parent run concurrently and the ring wraps between snapshot and publication',
    'C11': 'success of the producer retry as a behaviour',
    'C12': 'interleavings in which a peer is mid-operation while the live count changes',
    'C13': 'for the sink, the interleaving argument (rests on the lock shape of park/notify)',
    'C14': 'progress over schedules',
    'C15': 'that poll returns NotReady promptly (value-level fact about check() on a never-wrapped ring, DESIGN 6 N1)',
    'C16': 'the epoch arithmetic itself',
    'C17': 'byte counts; the >20 threshold dynamics',
    'C18': 'nothing beyond the stated assumptions (weak CAS fails spuriously only finitely often; finite stream list)',
    'C19': 'nothing: decided by the compiler for the stated instantiation matrix and generically for the positive direction',
}

ASSUMPTIONS = [
    'unwind (cleanup) paths are excluded: panics inside a payload Clone, a view closure or a user Wait are outside every quantifier',
    'analysed configuration = this host (x86_64): DepOrd = CONSUME = MAYBE_ACQUIRE evaluate to Acquire',
    'external higher-order functions: dependently/dependently_mut call their closure exactly once; any other external function receiving a crate closure may call it 0..n times',
    'rustc nightly MIR construction and Instance::try_resolve are trusted; std atomics / parking_lot / futures-0.1 task semantics as documented',
    'user Wait implementations honour the trait contract',
]
