"""property -> rules table (DESIGN.md section 5) and the texts that go into evidence."""

# rule id -> (group module, one-line statement)
RULES = {
    # ---- send
    'W1': ('rules_send', 'head is written only at the two claim sites of the send entry point (CAS: multi-writer, plain store: single-writer)'),
    'W2': ('rules_send', 'slot tags are stored only at queue construction and at the publication sites'),
    'W5': ('rules_send', 'tail cache written only by the reload in the send path; plain store only in single-writer mode'),
    'W6': ('rules_send', 'writers count changed only by Clone(+1)/Drop(-1) of the sender; senders built only by Clone or construction'),
    'W11': ('rules_send', 'QueueState::Uni built only at construction or on the writers==1 edge'),
    'P1a': ('rules_send', 'every claim is preceded, in every iteration, by the fullness test of the transaction being claimed'),
    'P1b': ('rules_send', 'capacity Full only after a fresh scan of the stream list in the same call'),
    'P1c': ('rules_send', 'claim dominated by the not-pinned edge of the claimed slot; pinned slot returns Full'),
    'P1d': ('rules_send', 'multi-writer claim is a CAS on the observed head; slot write dominated by its success edge'),
    'P1e': ('rules_send', 'after the claim: (drop-old iff untagged) -> write payload -> publish tag of the claimed count -> return'),
    'P1f': ('rules_send', 'payload moved exactly once: into the slot or back into the error'),
    'P1g': ('rules_send', 'claim advances head by exactly one'),
    'P2a': ('rules_send', 'plain-store claim only on state==Uni or on the writers==1 edge'),
    'P2b': ('rules_send', 'state:=Uni only on the writers==1 edge after an Acquire fence'),
    'P2c': ('rules_send', 'signal word examined before any claim'),
    'P2d': ('rules_send', 'successful send is followed by waiter.notify() when the waiter needs it'),
    'P2e': ('rules_send', 'Clone for the sender: source and copy Multi, writers+1 before the copy is returned'),
    'P14n': ('rules_send', 'waiter.notify() in try_send only behind needs_notify'),
    'C13map': ('rules_send', 'no-reader bit => Err(TrySendError::Disconnected(payload)), never a claim'),
    'O1': ('rules_send', 'publication is Release / licensing tag load is Acquire'),
    'O2': ('rules_send', 'position commit Release after the read; writer acquires before claiming'),
    # ---- recv
    'P3a': ('rules_recv', 'payload read only after tag==position of the same attempt; slot indexed by that position'),
    'P3b': ('rules_recv', 'shared stream: pin -> re-check position -> read -> unpin; pins balanced on every path incl. retry'),
    'P3c': ('rules_recv', 'pin skipped only on the consumers==1 edge'),
    'P3e': ('rules_recv', 'commit success -> Ok(value read); failed commit -> value forgotten (move-out) / dropped (clone-out), retry'),
    'P3f': ('rules_recv', 'Empty only after examining the current tag; Disconnected only after mismatch -> writers==0 -> acquire -> second look'),
    'P3g': ('rules_recv', 'commit advances the position by exactly one'),
    'P4': ('rules_recv', 'view: tag check -> closure -> destroy exactly once (move-out only) -> commit'),
    'P4a': ('rules_recv', 'view: closure only sees a slot whose tag equals the position'),
    'P4e': ('rules_recv', 'view: commit only after the closure'),
    'P5a': ('rules_recv', 'ReaderState::Single only for a fresh stream or on the consumers==1 edge after Acquire'),
    'P5b': ('rules_recv', 'plain-store commit only in Single mode (or on the Uni-typed view path)'),
    'P5d': ('rules_recv', 'the switch to Single reader mode is decided before the position of the attempt is observed'),
    'P5c': ('rules_recv', 'Clone for the receiver raises the consumer count and marks Multi before copying the Reader'),
    'W3': ('rules_recv', 'slot payloads are touched only at the enumerated sites'),
    'W7': ('rules_recv', 'consumer count changed only by +1 (clone) / -1 (drop)'),
    'W8': ('rules_recv', 'pin count only changed by the shared-stream branch of try_recv'),
    'O3': ('rules_recv', 'second look is Acquire-ordered after writers==0'),
    # ---- waiting / waking
    'P6a': ('rules_wait', 'blocking receive: signal word examined before the first attempt'),
    'P6b': ('rules_wait', 'blocking receive: Ok -> return, Disconnected -> end value (and only from there), Empty -> wait -> retry'),
    'P6c': ('rules_wait', 'the waiter is given the examined slot tag, this stream\'s position and the queue\'s writer count'),
    'P6d': ('rules_wait', 'the (sequence, slot) pair handed to the waiter stems from one observation of the stream position (shared streams)'),
    'P7a': ('rules_wait', 'a waiter that can block on a primitive has needs_notify()==true and a notify() that wakes all sleepers'),
    'P7b': ('rules_wait', 'BlockingWait: sleep inside the lock region after re-checking under the lock; notify holds that lock'),
    'P7c': ('rules_wait', 'FutWait: park / send_or_park register under the list lock after re-checking / re-trying inside it; notify drains the full list under the lock'),
    'P7d': ('rules_wait', 'fut_wait reports parked only after the task was registered'),
    'P7e': ('rules_wait', 'no futures root reaches a waiter whose wait() unconditionally panics'),
    'P7f': ('rules_wait', 'every waiter tests the writer count against zero and the awaited tag cell against the sequence number (argument roles)'),
    'P7h': ('rules_wait', 'the wake-up condition accepts a tag equal to OR ahead of the awaited sequence number'),
    'P7i': ('rules_wait', 'every loop of Wait::wait re-reads the awaited cell on each iteration (zero spin counts included)'),
    'P7k': ('rules_wait', 'lock order: the task-list and manager locks are always taken in one order (no acquisition cycle across poll / start_send / drop)'),
    'P7j': ('rules_wait', 'fut_wait answers "retry" only after evaluating the wake-up condition (zero spin counts included)'),
    'P7g': ('rules_wait', 'the wake-up condition does not mistake a never-written slot (tag bit set) for a published one'),
    'P8': ('rules_wait', 'sender drop: writers-1 (>=Release) then unconditional waiter.notify()'),
    'P9e': ('rules_wait', 'every handle removes its reclamation token on every drop path'),
    # ---- population
    'P9a': ('rules_pop', 'unsubscribe effects only under alive==true; alive cleared on that path'),
    'P9b': ('rules_pop', 'stream removed from the list exactly on the "previous consumer count == 1" edge'),
    'P9c': ('rules_pop', 'no-reader bit set exactly on the "list now empty" edge'),
    'P9d': ('rules_pop', 'drop callback runs on every alive path after the state change'),
    'P9f': ('rules_pop', 'unsubscribe() returns consumers==1 evaluated before the drop'),
    'P10a': ('rules_pop', 'new stream starts at the parent position loaded during the call'),
    'P10b': ('rules_pop', 'published list = fresh group cloned from the list the CAS expects (+push / retain != this)'),
    'P10c': ('rules_pop', 'CAS failure releases every speculative allocation and retries from the observed pointer'),
    'P10d': ('rules_pop', 'CAS success retires the replaced list (and a removed position block) through the deferred-free manager'),
    'P10e': ('rules_pop', 'last_pos recorded exactly when the old list had one stream'),
    'P10f': ('rules_pop', 'list scan is re-validated against the list pointer and visits every stream'),
    'P11e': ('rules_pop', 'dropping a futures receiver drains the producer task list'),
    'P15w': ('rules_pop', 'a new stream uses the parent stream\'s wrap (same count->slot map)'),
    'P15': ('rules_misc', 'one normalised capacity / the parent wrap feeds every index map'),
    'W9': ('rules_pop', 'stream list pointer written only by CAS in add/remove'),
    'W10': ('rules_pop', 'no-reader bit set only by unsubscribe and never cleared'),
    'W12': ('rules_pop', 'published objects released only through the deferred path; epoch announcements only by the signal handlers / remove_token'),
    'W13': ('rules_pop', 'direct-commit view path reachable only from non-Clone single-consumer handle types built under consumers==1 / from a fresh stream'),
    'W14': ('rules_pop', 'a move-out queue gets a second stream only by consuming the handle'),
    'S5': ('rules_pop', 'every handle is built with a fresh token (receivers alive=true)'),
    # ---- futures
    'P11a': ('rules_fut', 'Sink::start_send mapping: Ok->Ready (iff published), Full(m)->NotReady(m), Disconnected(m)->Err(SendError(m)), m unchanged'),
    'P11b': ('rules_fut', 'send_or_park never parks on Disconnected and re-sends the handed-back value'),
    'P11c': ('rules_fut', 'Stream::poll mapping: Ready(Some) only after a successful commit; NotReady only after registering the task'),
    'P11d': ('rules_fut', 'every futures receive root that consumes a value drains the producer task list'),
    'P11h': ('rules_fut', 'a futures receive that released a slot pin drains the producer task list before returning'),
    'P11i': ('rules_fut', 'a futures receiver that leaves its stream drains the producer task list afterwards, on every path'),
    'P11f': ('rules_fut', 'no peer-blocking call reachable from poll / start_send / poll_complete'),
    # ---- memory
    'P12a': ('rules_mem', 'retired objects deleted only after every registered token announced the epoch'),
    'P12b': ('rules_mem', 'acyclic blocking lock order between the manager mutexes'),
    'P12d': ('rules_mem', 'a handle removes its reclamation token only after its last access to shared bookkeeping'),
    'P12c': ('rules_mem', 'epoch announced only at a quiescent point: no list pointer loaded before it is used after it'),
    'P13a': ('rules_mem', 'every allocation class has a release site'),
    'P13b': ('rules_mem', 'teardown releases both rings, the published list and both retired-object lists'),
    'P13d': ('rules_mem', 'a new batch of retired objects is installed only when the previous cycle completed'),
    'P13c': ('rules_mem', 'destructor shape: clone-out drops untagged slots of 0..capacity; move-out drops [last_pos, head)'),
    # ---- misc
    'P14': ('rules_misc', 'every cycle of the try operations is a CAS-retry, re-validation or finite-iterator loop; nothing that waits is reachable'),
    'S1': ('rules_misc', 'the two QueueRW flavours are consistent rows (clone-out / move-out)'),
    'S3': ('rules_misc', 'wrappers are thin, forward once to the same-named inner method, broadcast/mpmc twins agree, iterators end only on error'),
    # ---- extra
    'P10g': ('rules_extra', 'the stream scan folds with max: the slowest stream bounds the writer'),
    'P10h': ('rules_extra2', 'add_stream / add_stream_with / into_multi publish and return a new stream; clone / into_single stay on the caller\'s stream'),
    'P11g': ('rules_extra', 'consumer / producer task lists keep their roles in every futures handle construction'),
    'P12e': ('rules_extra', 'update_token stores exactly the current global epoch (Release) whenever the token lags'),
    'P12f': ('rules_extra', 'cycle start bumps the epoch by one and raises the epoch signal; the signal is cleared only after a completed cycle'),
    'P12h': ('rules_extra', 'MemoryManager::free is never entered with the manager lock held (its try_lock would always fail: no reclamation progress from that call)'),
    'P12i': ('rules_extra', 'a completed reclamation cycle records its epoch; success is reported only after the batch was deleted'),
    'P1h': ('rules_extra', 'fullness test subtracts exactly the ring size (mask+1 of the head index) from the observed head'),
    'P3t': ('rules_extra', 'tag-bit constants are complementary, never-written slots carry the tag bit, tag test / pin re-check compare unmodified counts'),
    'P9g': ('rules_extra', 'into_single: clone before dropping the original, test the count after the drop'),
    'P15m': ('rules_extra', 'index arithmetic helpers keep their shape: mask = wrap-1, index = count & mask, new count = (count + by) & count mask, past / get_previous, refreshed tail = head - scan'),
    'P15n': ('rules_extra2', 'no narrowing integer conversion of counts / distances / indices / capacities in the queue modules'),
    'P3u': ('rules_extra2', 'no destructor of the crate that destroys a payload or moves a position runs on the unwind path of user code (view closure, Clone)'),
    'P13g': ('rules_extra2', 'a value of a crate type withheld from its destructor (forget / ManuallyDrop) has every owning field moved out or destroyed on the same path'),
    'P13e': ('rules_extra2', 'alloc / ToFree shapes: allocate = forgotten with_capacity(n); deallocate = from_raw_parts(p, 0, n); do_free drops num then deallocates num'),
    'P13f': ('rules_extra2', 'no buffer is sized from another buffer\'s capacity (capacities must not be inherited by replacement lists)'),
    'P12k': ('rules_extra2', 'token life cycle: created at the current epoch under the lock and registered; removed by retain(!=); announce -> unregister -> retire'),
    'P15i': ('rules_extra2', 'initial state of a new queue: head = first stream = tail cache = last_pos = 0, one consumer, no pins'),
    'P12g': ('rules_extra', 'every operation that sees the epoch bit announces with its own token'),
    'P5n': ('rules_r10', 'a new stream is published with exactly one registered consumer (constants followed up through every caller)'),
    'W19': ('rules_r10', 'every unsafe impl Send/Sync of a handle type bounds each type parameter of which the type stores a value (evaluated by the C19 check)'),
    'P4r': ('rules_r10', 'no function of the queue layers returns a reference into a slot payload'),
    'S6': ('rules_r10', 'receive handles store no payload value (all receive entry points draw from the ring)'),
    'P12u': ('rules_r10', 'no user code (a closure handed in through an entry point of the crate) runs while a function walks the published stream list'),
    'S9': ('rules_r10', 'no state change (atomic write, lock, Cell::set, notify) inside a block that only exists with debug assertions (`debug_assert!(x.fetch_add(1) < N)`): the release build would lack it'),
    'S8': ('rules_r10', 'handle kinds stay apart: no futures -> plain receive conversion; no Deref / AsRef / Borrow on handle types, no Clone on single-consumer handles'),
    'S7': ('rules_r10', 'inside the crate a receive iterator is only driven by adaptors that deliver every element they pull (no zip-left / take_while / map_while / peekable)'),
    # ---- crate-wide sweeps
    'W3s': ('rules_sweep', 'crate-wide: every slot-payload access is at a site one of the vetted entry graphs contains'),
    'W1s': ('rules_sweep', 'crate-wide: every write to head / tags / positions / pins / counts / tail cache / stream list is at a vetted site'),
}

# property -> rule ids that decide its structural part
# rules of the data path (claim / publish / validate / read / commit, modes, stream list, capacity): the damage of
# breaking any of them shows up as lost / duplicated / reordered / overwritten / torn / double-dropped values, i.e.
# under several of C01..C06 and C12 at once, so all of those checks evaluate all of them
DATAPATH = ['P1a', 'P1b', 'P1c', 'P1d', 'P1e', 'P1f', 'P1g', 'P1h', 'P2a', 'P2b', 'P2e', 'P3a', 'P3b', 'P3c', 'P3e', 'P3f', 'P3g', 'P3t',
            'P4', 'P4a', 'P4e', 'P5a', 'P5b', 'P5c', 'P5d', 'P9b', 'P10a', 'P10b', 'P10f', 'P10g', 'P10h', 'P9g', 'P9f', 'W7', 'P15', 'P15m', 'P15n', 'P15w', 'S1', 'W1', 'W2', 'W3', 'W5', 'W8',
            'W11', 'W13', 'P15i', 'O1', 'O2']

# rules of the futures adapters and of parking / waking: a broken one shows up under C13, C14 or C15 (and C11 when the
# wake-up that follows a stream removal is lost), so those checks share them
FUTURES = ['S8', 'P7i', 'P2d', 'P6b', 'P6c', 'P6d', 'P7c', 'P7d', 'P7e', 'P7f', 'P7g', 'P7h', 'P7j', 'P7k', 'P9d', 'P11a', 'P11b', 'P11c', 'P11d', 'P11e', 'P11f',
           'P11g', 'P11h', 'P11i', 'P8']

PROPS = {
    # (a blocking receive that reports the end while an accepted value is still in the ring loses that value for its stream)
    'C01': DATAPATH + ['P6b', 'S6', 'S7', 'S8'],
    'C02': DATAPATH + ['S6', 'S8'],
    'C03': DATAPATH + ['P5n'],
    'C04': DATAPATH + ['W14', 'P3u', 'P4r', 'S8'],
    'C05': DATAPATH + ['P13c', 'P13e', 'P13g', 'P3u', 'W14'],
    # ... a send refused for good (Disconnected raised while streams exist) is a refused send the quiescent state does not explain
    'C06': DATAPATH + ['W10', 'C13map', 'P9c'],
    # ... and a futures Stream only learns of the last value / of the end when its parked task is woken: the stream
    # side of the parking protocol belongs here as well
    'C07': ['W2', 'W1s', 'P3f', 'P6b', 'W6', 'P2e', 'P8', 'P7a', 'P7b', 'P7f', 'P7i', 'S3', 'O3', 'P2d', 'P7c', 'P7d', 'P7g', 'P7h', 'P7j', 'P11c', 'P11g'],
    'C08': ['W2', 'W1s', 'P7a', 'P7b', 'P7f', 'P7h', 'P7i', 'P7k', 'P2d', 'P8', 'P6b', 'P6c', 'P6d', 'P3f', 'O3'],
    'C09': ['P1a', 'P1b', 'P1h', 'P3f', 'P6b', 'P9b', 'P9c', 'P9f', 'P9g', 'P10a', 'P10b', 'P10e', 'P10h', 'P11a', 'P11b', 'P11c', 'S1', 'S3', 'W10', 'W13', 'P15i', 'C13map', 'P15', 'P15m', 'P15w', 'P7c', 'P7d', 'P7e', 'P7f', 'P7g', 'P7h', 'P7j', 'P1f', 'P1g', 'P3a', 'P3e', 'P3g', 'P4', 'P4e', 'P8', 'W6', 'S6', 'P5n', 'S7', 'S8', 'P7i'],
    'C10': ['S6', 'P10a', 'P10b', 'P10c', 'P10d', 'P10f', 'P10g', 'P10h', 'P15', 'P15m', 'P15n', 'P15w', 'P3t', 'P5a', 'S5', 'W9'],
    'C11': ['P5n', 'P9a', 'P9b', 'P9c', 'P9d', 'P9f', 'P10b', 'P10h', 'P11i', 'P10d', 'P10e', 'P10f', 'P10g', 'P1b', 'P11e', 'P11g', 'P12d', 'W7', 'W9', 'S5'],
    'C12': DATAPATH + ['W6', 'P9a', 'P5n'],
    'C13': FUTURES + ['C13map', 'P2c', 'P9c', 'W10', 'P9f', 'W7'],
    'C14': FUTURES,
    'C15': FUTURES + ['P7a', 'S3'],
    'C16': ['P12u', 'P4r', 'P6a', 'P12k', 'P13e', 'W9', 'W12', 'P12a', 'P12b', 'P12c', 'P12d', 'P12e', 'P12f', 'P12g', 'P12i', 'P13d', 'P10c', 'P10d', 'P10f', 'P9e', 'S5'],
    'C17': ['P6a', 'P12k', 'P13e', 'P13f', 'P13g', 'P12e', 'P12f', 'P12g', 'P12h', 'P12i', 'P13a', 'P13b', 'P13d', 'P9e', 'P10c', 'P10d'],
    'C18': ['P14', 'P14n', 'P7k', 'P3b', 'P3t', 'P1b'],
}

UNDECIDED = {
    'C01': 'that the per-step obligations compose to exactly-once over all interleavings (linearizability); value-level arithmetic of matches_previous/past/masks',
    'C02': 'real-time order between producers and cross-stream agreement as behaviours over interleavings',
    'C03': 'the arithmetic (head-N==tail as equality test, max vs min, get_valid_wrap rounding) and stale-cache race windows',
    'C04': 'sufficiency of the pin handshake under weak memory; torn reads as a behaviour',
    'C05': 'that [last_pos, head) is the unconsumed range on every teardown order; panics inside user code',
    'C06': 'the quiescent-state equality with the model; the add_stream race with a concurrently advancing parent',
    'C07': '"drains everything first" as a behaviour over interleavings',
    'C08': 'liveness over schedules; fairness of OS primitives',
    'C09': 'value-level comparison of every return value with a model over call sequences; get_valid_wrap arithmetic; absence of panics in general',
    'C10': 'the no-gap property when other consumers of the parent run concurrently and the ring wraps between snapshot and publication',
    'C11': 'success of the producer retry as a behaviour',
    'C12': 'interleavings in which a peer is mid-operation while the live count changes',
    'C13': 'for the sink, the interleaving argument (rests on the lock shape of park/notify)',
    'C14': 'progress over schedules',
    'C15': 'that poll returns NotReady promptly (value-level fact about check() on a never-wrapped ring, DESIGN 6 N1)',
    'C16': 'the epoch arithmetic itself',
    'C17': 'byte counts; the >20 threshold dynamics',
    'C18': 'nothing beyond the stated assumptions (weak CAS fails spuriously only finitely often; finite stream list)',
    'C19': 'nothing: decided by the compiler for the stated instantiation matrix and generically for the positive direction',
}

ASSUMPTIONS = [
    'unwind (cleanup) paths are excluded: panics inside a payload Clone, a view closure or a user Wait are outside every quantifier',
    'analysed configuration = this host (x86_64): DepOrd = CONSUME = MAYBE_ACQUIRE evaluate to Acquire',
    'external higher-order functions: dependently/dependently_mut call their closure exactly once; any other external function receiving a crate closure may call it 0..n times',
    'rustc nightly MIR construction and Instance::try_resolve are trusted; std atomics / parking_lot / futures-0.1 task semantics as documented',
    'user Wait implementations honour the trait contract',
]

C19_CLAIMED = True

# rules evaluated only in the thorough tier (crate-wide sweeps, ~15 s)
# (the sweeps W1s / W3s used to be thorough-tier extras; a feature commit that adds a receive / send entry point with a
# protocol of its own is only seen by them, so they are evaluated in both tiers and listed in PROPS)
THOROUGH_EXTRA = {}
SWEEPS = {'C01': ['W1s', 'W3s'], 'C02': ['W1s', 'W3s'], 'C03': ['W1s'], 'C04': ['W3s'], 'C05': ['W3s'], 'C06': ['W1s', 'W3s'], 'C12': ['W1s'], 'C09': ['W1s', 'W3s']}
for _k in list(PROPS):
    # (a state change that only exists in debug builds can be part of any protocol)
    PROPS[_k] = list(PROPS[_k]) + ['S9']
for _k, _v in SWEEPS.items():
    PROPS[_k] = list(PROPS[_k]) + [r_ for r_ in _v if r_ not in PROPS[_k]]
