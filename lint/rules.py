"""rule registry: groups, property -> rule ids"""
import importlib

GROUPS = ['rules_send', 'rules_recv', 'rules_wait', 'rules_pop', 'rules_fut', 'rules_mem', 'rules_misc', 'rules_extra']


def run_group(ctx, name):
    if name in ctx._groups_done:
        return
    importlib.import_module(name).run(ctx)
    ctx._groups_done.add(name)


def run_all(ctx):
    for g in GROUPS:
        run_group(ctx, g)
