"""rule registry: groups, property -> rule ids"""
import importlib

GROUPS = ['rules_send', 'rules_recv', 'rules_wait', 'rules_pop', 'rules_fut', 'rules_mem', 'rules_misc', 'rules_extra', 'rules_extra2', 'rules_r10', 'rules_sweep']


def run_group(ctx, name):
    if name in ctx._groups_done:
        return
    importlib.import_module(name).run(ctx)
    ctx._groups_done.add(name)


THOROUGH_GROUPS = []   # (the crate-wide sweeps W1s / W3s run in both tiers since round 11)


def run_all(ctx, thorough=True):
    for g in GROUPS + (THOROUGH_GROUPS if thorough else []):
        run_group(ctx, g)
