"""mq2lint core: fact loading, MIR inlining into expanded event graphs, value provenance,
dominators / reachability.  Python 3 stdlib only.

Terminology (DESIGN.md 2.3):
  Graph        expanded CFG of one root function for one flavour (BCast / MPMC / None);
               crate-local callees, closures and flavour trait methods are inlined.
  node         one MIR basic block of one inlined instance, or a virtual node splitting a
               switchInt edge (kind == 'edge').
  expr         provenance expression of a value (tuple tree, see ev_*).
"""
import json
import re
import sys

sys.setrecursionlimit(20000)


class CheckError(Exception):
    """The tool could not analyse (anchor missing, floor not met, stale facts)."""


# ----------------------------------------------------------------------------------------
# facts
# ----------------------------------------------------------------------------------------

def short(path):
    """last path segment without generics: 'multiqueue::MultiQueue<RW, T>' -> 'MultiQueue'"""
    if path is None:
        return None
    p = re.sub(r'<.*$', '', path)
    return p.split('::')[-1]


class Facts:
    def __init__(self, path):
        with open(path) as f:
            d = json.load(f)
        # names of the reference tree for renamed private fields / functions (roles.py)
        import roles
        self.aliases = roles.apply(d)
        self.fresh = set(self.aliases.get('fresh') or ())
        self.d = d
        self.path = path
        self.fns = d['fns']
        # bodies of std combinators the crate calls (exported by the driver): inlined like crate functions, never
        # subjects of a rule
        self.xfns = d.get('xfns') or {}
        self.bodies = dict(self.fns)
        self.bodies.update(self.xfns)
        self.adts = d['adts']
        self.impls = d['impls']
        self.root_items = d.get('root_items') or []
        self.nonce = d.get('nonce')
        self.flavours = {}
        self.flavour_consts = {}
        self.wait_impls = {}
        for im in self.impls:
            tr = im.get('trait')
            if not tr:
                continue
            adt = im['self_ty'].get('adt')
            if tr.endswith('multiqueue::QueueRW') and adt:
                self.flavours[short(adt)] = {it['name']: it['path'] for it in im['items']
                                             if it['kind'] == 'AssocFn'}
                self.flavour_consts[short(adt)] = {it['name']: it.get('value') for it in im['items']
                                                   if it['kind'].startswith('AssocConst')}
            if tr.endswith('wait::Wait') and adt:
                self.wait_impls[short(adt)] = {it['name']: it['path'] for it in im['items']
                                               if it['kind'] == 'AssocFn'}
        # methods an impl does not define are the trait's provided (default) bodies
        for (tr_re, table) in ((r'(^|::)wait::Wait::(\w+)$', self.wait_impls), (r'(^|::)multiqueue::QueueRW::(\w+)$', self.flavours)):
            for k, f in self.fns.items():
                m = re.search(tr_re, k)
                if m and f.get('kind') == 'AssocFn' and not f.get('impl_self'):
                    for methods in table.values():
                        methods.setdefault(m.group(2), k)

    def fn(self, path):
        f = self.fns.get(path)
        if f is None:
            raise CheckError('anchor missing: function %s' % path)
        return f

    def find_fns(self, regex):
        r = re.compile(regex)
        return [k for k in self.fns if r.search(k)]

    def one_fn(self, regex):
        m = self.find_fns(regex)
        if len(m) != 1:
            raise CheckError('anchor %r matched %d functions: %s' % (regex, len(m), m[:5]))
        return m[0]

    def adt(self, suffix):
        m = [k for k in self.adts if k == suffix or k.endswith('::' + suffix)]
        if len(m) != 1:
            raise CheckError('anchor missing: type %s (%d matches)' % (suffix, len(m)))
        return m[0], self.adts[m[0]]

    def where(self, fn):
        f = self.fns.get(fn)
        if not f:
            return '?'
        return '%s:%d' % (f['file'], f['line'])


# ----------------------------------------------------------------------------------------
# call classification helpers
# ----------------------------------------------------------------------------------------

PTR_CAST_RE = re.compile(r'ptr::(mut_ptr|const_ptr)::<impl \*(mut|const) T>::(cast|cast_mut|cast_const)$')
PTR_METHOD_RE = re.compile(r'ptr::(mut_ptr|const_ptr)::<impl \*(mut|const) T>::(read|read_volatile|read_unaligned|write|write_volatile|write_unaligned|drop_in_place|replace|write_bytes)$')
PRED_RE = re.compile(r'(?:result::Result|option::Option)(?:::<.*>)?::(is_ok|is_err|is_some|is_none)$')
FN_TRAIT_RE = re.compile(r'ops::(function::)?(FnOnce|FnMut|Fn)(::|$)')

# external higher-order functions: which argument is the closure, and how often it is called
# 'once' = exactly once on every normal path; anything else = 0..n ('may')
HOF_ONCE = [re.compile(r'artificial_dep::dependently(_mut)?$')]

ATOMIC_RE = re.compile(
    r'atomic::(Atomic(::<.*>)?|AtomicUsize|AtomicIsize|AtomicBool|AtomicPtr(::<.*>)?)::'
    r'(load|store|swap|fetch_add|fetch_sub|fetch_or|fetch_and|fetch_xor|fetch_max|fetch_min|'
    r'compare_exchange|compare_exchange_weak|compare_and_swap|fetch_update|get_mut|into_inner)$')

# `From::from` of a type into itself (what `?` applies to the error): the value
IDENTITY_FROM_RE = re.compile(r'^<T as (std|core)::convert::From<T>>::from$')
TRANSPARENT_RE = re.compile(
    r'(ops::(deref::)?Deref(Mut)?>?::deref(_mut)?$|::as_ptr$|::as_mut_ptr$|::as_ref$|::as_mut$|'
    r'ptr::(mut_ptr|const_ptr)::<impl \*(mut|const) T>::(offset|add|sub|cast|cast_mut|cast_const|wrapping_add|wrapping_offset)$|'
    r'convert::(Into|From|AsRef|AsMut)::|borrow::Borrow(Mut)?::|'
    r'ptr::(NonNull|non_null::NonNull)(::<.*>)?::(as_ptr|as_ref|as_mut|new_unchecked)$|'
    r'cell::Cell(::<.*>)?::as_ptr$)')
OFFSET_RE = re.compile(r'<impl \*(mut|const) T>::(offset|add|sub|wrapping_add|wrapping_offset)$')


class Node:
    # a node's *site* is (inst, bb, kind, edge): clones made by jump threading share it
    __slots__ = ('id', 'inst', 'fn', 'bb', 'stmts', 'term', 'succs', 'preds', 'kind', 'line',
                 'call', 'edge')

    def __init__(self, id, inst, fn, bb, kind):
        self.id = id
        self.inst = inst
        self.fn = fn
        self.bb = bb
        self.kind = kind
        self.stmts = []
        self.term = None
        self.succs = []
        self.preds = []
        self.line = 0
        self.call = None   # dict for call nodes
        self.edge = None   # (switch_node_id, value or None, [other values]) for edge nodes

    def __repr__(self):
        return 'N%d[%s bb%s %s]' % (self.id, short(self.fn), self.bb, self.kind)


class Inst:
    __slots__ = ('id', 'fn', 'parent', 'call_node', 'depth', 'entry', 'rets', 'bbmap', 'body',
                 'how')

    def __init__(self, id, fn, parent, call_node, depth, body, how):
        self.id = id
        self.fn = fn
        self.parent = parent
        self.call_node = call_node
        self.depth = depth
        self.body = body
        self.entry = None
        self.rets = []
        self.bbmap = {}
        self.how = how


REC = ('rec',)
UNKNOWN = ('unknown',)


class Graph:
    """Expanded event graph of `root` (a def path in facts.fns) for `flavour`."""

    def __init__(self, facts, root, flavour=None, max_depth=14, inline_filter=None):
        self.facts = facts
        self.root = root
        self.flavour = flavour
        self.max_depth = max_depth
        self.inline_filter = inline_filter
        self.nodes = []
        self.insts = []
        self.defs = {}      # (inst, local) -> list of defs
        self.pdefs = {}     # (inst, local) -> list of (proj, def) partial assignments
        self.not_inlined = []   # (node id, callee, reason)
        self.pending_calls = []
        self._memo = {}
        self._rd_ready = False
        self._rdcache = {}
        self._onstack = {}
        self._cut = 0
        self._cutmin = 1 << 30
        facts.fn(root)
        self.root_inst, self.entry, self.exits = self._expand(root, None, None, 0, (), 'root')
        self._finish()

    # ------------------------------------------------------------------ construction
    def _new_node(self, inst, fn, bb, kind):
        n = Node(len(self.nodes), inst, fn, bb, kind)
        self.nodes.append(n)
        return n

    def _expand(self, fn, parent, call_node, depth, stack, how, binder=None):
        body = self.facts.bodies[fn]
        inst = Inst(len(self.insts), fn, parent, call_node, depth, body, how)
        self.insts.append(inst)
        iid = inst.id
        if binder is not None:
            binder(iid)
        blocks = body['blocks']
        for bi, b in enumerate(blocks):
            if b['cleanup']:
                continue
            n = self._new_node(iid, fn, bi, 'block')
            n.stmts = b['stmts']
            n.term = b['term']
            n.line = b['line']
            inst.bbmap[bi] = n.id
        inst.entry = inst.bbmap[0]
        # defs
        for bi, nid in inst.bbmap.items():
            n = self.nodes[nid]
            for si, s in enumerate(n.stmts):
                if s['k'] != 'assign':
                    continue
                pl = s['pl']
                d = ('rv', s['rv'], iid, nid, si)
                if not pl['p']:
                    self.defs.setdefault((iid, pl['l']), []).append(d)
                else:
                    self.pdefs.setdefault((iid, pl['l']), []).append((pl['p'], d))
        self._memo.clear()
        # edges
        calls = []
        glues = []
        for bi, nid in inst.bbmap.items():
            n = self.nodes[nid]
            t = n.term
            k = t['k']
            if k == 'goto':
                n.succs = [inst.bbmap[t['t']]]
            elif k == 'switch':
                vals = t['vals']
                for v, tg in zip(vals, t['targets']):
                    e = self._new_node(iid, fn, bi, 'edge')
                    e.edge = (nid, v, None)
                    e.line = n.line
                    e.succs = [inst.bbmap[tg]]
                    n.succs.append(e.id)
                e = self._new_node(iid, fn, bi, 'edge')
                e.edge = (nid, None, tuple(vals))
                e.line = n.line
                if t['otherwise'] in inst.bbmap:
                    e.succs = [inst.bbmap[t['otherwise']]]
                n.succs.append(e.id)
            elif k == 'ret':
                inst.rets.append(nid)
            elif k in ('drop', 'assert'):
                if t['t'] in inst.bbmap:
                    n.succs = [inst.bbmap[t['t']]]
                if k == 'drop' and t.get('glue') and n.succs:
                    glues.append((nid, t['glue'], t['pl']))
            elif k == 'call':
                calls.append(nid)
            elif k == 'otherterm':
                n.succs = [inst.bbmap[s] for s in t.get('succ', []) if s in inst.bbmap]
            # unreachable / resume / terminate: no successors
        for nid in calls:
            self._do_call(inst, nid, depth, stack + (fn,))
        for (nid, glue, pl) in glues:
            self._do_glue(inst, nid, glue, pl, depth, stack + (fn,))
        return iid, inst.entry, inst.rets

    def _do_glue(self, inst, nid, glue, pl, depth, stack):
        """a value with destructors of this crate goes out of scope (drop terminator, `mem::drop(v)`,
        `ptr::drop_in_place(p)`): the `Drop::drop` bodies run here, the value's own first and then those of its fields, each
        on `&mut` of the part it belongs to (only destructors that are new relative to the reference tree, see below).  Parts behind an `Arc`/`Rc` are shared (the last owner's business, examined
        on the owner's destructor as a root of its own); parts in an enum variant or a container run on some paths only."""
        n = self.nodes[nid]
        iid = inst.id
        if not n.succs:
            return
        items = []
        for it in glue:
            c = it['fn']
            if c not in self.facts.bodies or c in stack or depth >= self.max_depth:
                continue
            # the destructors of the reference tree are roots of their own (rules P8, P9*, P12*, P13*: what a handle's
            # Drop does); a destructor the reference tree does not have (an RAII guard introduced by a change) is, like
            # any fresh helper, part of the code that lets the value go out of scope
            if c not in self.facts.fresh:
                continue
            if any(isinstance(q, dict) and (q.get('via') or '').rsplit('::', 1)[-1] in ('Arc', 'Rc') for q in it['proj']):
                continue
            if self.inline_filter and not self.inline_filter(c, depth):
                continue
            items.append(it)
        if not items or len(items) > 6:
            return
        nxt = n.succs[0]
        sbb = 1000 * (n.bb + 1)
        for k_, it in reversed(list(enumerate(items))):
            # synthetic nodes get block numbers of their own (a site is (inst, bb, kind, ..))
            G = self._new_node(iid, n.fn, sbb + 10 * k_, 'block')
            G.line = n.line
            place = {'l': pl['l'], 'p': list(pl['p']) + list(it['proj'])}
            G.term = {'k': 'call', 'fn': it['fn'], 'args': [{'k': 'addr', 'pl': place}], 'dest': {'l': -1, 'p': []}, 't': None, 'glue': True,
                      'rk': 'item', 'resolved': it['fn']}
            G.stmts = []
            G.call = {'name': it['fn'], 'resolved': it['fn'], 'how': 'dropglue', 'inlined': None, 'closure_insts': [], 'target': nxt,
                      'rk': 'item', 'trait': 'std::ops::Drop', 'method': 'drop'}

            def binder(cinst, place=place, gid=G.id):
                self._memo.clear()
                self.defs.setdefault((cinst, 1), []).append(('op', {'k': 'addr', 'pl': place}, iid, (gid, None)))
            cinst, centry, crets = self._expand(it['fn'], iid, G.id, depth + 1, stack, 'dropglue', binder)
            G.call['inlined'] = cinst
            for r in crets:
                self.nodes[r].succs = [nxt]
            if not it.get('maybe'):
                G.succs = [centry]
                nxt = G.id
                continue
            # conditional: the part lives in one variant of an enum (`Option<Guard>`): a test of the discriminant, so that
            # the paths on which the variant is known take the right side
            dj = None
            for j, q in enumerate(it['proj']):
                if isinstance(q, dict) and 'opaque' in q:
                    break
                if isinstance(q, dict) and 'downcast' in q and q.get('dv') is not None:
                    dj = j
                    break
            rest_maybe = dj is None or any(isinstance(q, dict) and ('opaque' in q or 'downcast' in q) for q in it['proj'][dj + 1:])
            G.succs = [centry] + ([nxt] if rest_maybe else [])
            if dj is None:
                nxt = G.id
                continue
            dv = str(it['proj'][dj]['dv'])
            S = self._new_node(iid, n.fn, sbb + 10 * k_ + 1, 'block')
            S.line = n.line
            S.stmts = []
            tmp = -(2 + S.id)
            S.term = {'k': 'switch', 'op': {'k': 'copy', 'pl': {'l': tmp, 'p': []}}, 'vals': [dv], 'targets': [], 'otherwise': None, 'glue': True}
            epl = {'l': pl['l'], 'p': list(pl['p']) + list(it['proj'][:dj])}
            self.defs.setdefault((iid, tmp), []).append(('rv', {'k': 'discr', 'pl': epl}, iid, S.id, None))
            E1 = self._new_node(iid, n.fn, S.bb, 'edge')
            E1.edge = (S.id, dv, None)
            E1.line = n.line
            E1.succs = [G.id]
            E2 = self._new_node(iid, n.fn, S.bb, 'edge')
            E2.edge = (S.id, None, (dv,))
            E2.line = n.line
            E2.succs = [nxt]
            S.succs = [E1.id, E2.id]
            nxt = S.id
        n.succs = [nxt]

    def _callee_of(self, inst, t):
        """-> (callee path or None, how, closure?)"""
        F = self.facts
        if 'fn' not in t:
            return None, 'indirect', False
        name = t['fn']
        tr = t.get('trait')
        if tr and tr.endswith('multiqueue::QueueRW') and t.get('rk') == 'none':
            if self.flavour is None:
                return None, 'flavour-unresolved', False
            m = F.flavours.get(self.flavour, {}).get(t['method'])
            if m is None:
                raise CheckError('flavour %s has no method %s' % (self.flavour, t['method']))
            return m, 'flavour', False
        if tr and FN_TRAIT_RE.search(tr):
            g0 = (t.get('gtys') or [None])[0]
            c = None
            if g0:
                c = g0.get('closure') or (g0.get('inner') or {}).get('closure')
            if c and c in F.fns:
                return c, 'closure-direct', True
            # a named function passed where a closure is expected
            fd = None
            if g0:
                fd = g0.get('fndef') or (g0.get('inner') or {}).get('fndef')
            if fd and fd in F.fns:
                return fd, 'fnitem-direct', 'fnitem'
            # by value provenance
            e = self.ev_op(inst.id, t['args'][0]) if t['args'] else UNKNOWN
            cs = self.closures_of(e)
            if len(cs) == 1:
                c = next(iter(cs))
                if c in F.fns:
                    return c, 'closure-prov', ('fnitem' if F.fns[c]['kind'] != 'Closure' else True)
            return None, 'closure-unresolved', True
        if t.get('rk') in ('item',) and t.get('resolved_local') and t['resolved'] in F.fns:
            return t['resolved'], 'item', False
        if t.get('fn_local') and name in F.fns and t.get('rk') != 'virtual' and not tr:
            return name, 'item', False
        if name in F.xfns and not t.get('fn_local') and not PRED_RE.search(name):
            return name, 'std', False
        # `expr?` on a Result / Option: Try::branch and FromResidual::from_residual of the std impls
        if t.get('resolved') in F.xfns and not t.get('resolved_local') and not PRED_RE.search(t['resolved']) and t['resolved'] != name:
            return t['resolved'], 'std', False
        return None, 'external', False

    def _do_call(self, inst, nid, depth, stack):
        n = self.nodes[nid]
        t = n.term
        iid = inst.id
        tgt = inst.bbmap.get(t['t']) if t['t'] is not None else None
        callee, how, is_closure = self._callee_of(inst, t)
        dest = t['dest']
        info = {'name': t.get('fn') or '<indirect>', 'resolved': t.get('resolved'), 'how': how,
                'inlined': None, 'closure_insts': [], 'target': tgt, 'rk': t.get('rk'),
                'trait': t.get('trait'), 'method': t.get('method')}
        n.call = info
        inl = callee is not None and depth < self.max_depth and callee not in stack
        if inl and self.inline_filter and not self.inline_filter(callee, depth):
            inl = False
            self.not_inlined.append((nid, callee, 'filtered'))
        elif callee is not None and not inl:
            if callee in stack and self._tail_recursion(inst, nid, callee):
                # `return self.f(same arguments)` from (a helper of) f: the next round of a loop over f's body
                info['how'] = 'tail-recursion'
                return
            self.not_inlined.append((nid, callee, 'recursion' if callee in stack else 'depth'))
        if inl:
            body = self.facts.bodies[callee]
            ac = body['arg_count']
            args = t['args']

            def binder(cinst):
                self._memo.clear()
                if is_closure == 'fnitem':
                    # args = [fn item (zero-sized), tuple of actual args]; the callee has no environment parameter
                    for k in range(ac):
                        if len(args) > 1:
                            self.defs.setdefault((cinst, 1 + k), []).append(('tfld', args[1], iid, k, (nid, None)))
                elif is_closure:
                    # args = [closure value / ref, tuple of actual args]
                    self.defs.setdefault((cinst, 1), []).append(('op', args[0], iid, (nid, None)))
                    for k in range(ac - 1):
                        if len(args) > 1:
                            self.defs.setdefault((cinst, 2 + k), []).append(('tfld', args[1], iid, k, (nid, None)))
                else:
                    for i in range(min(ac, len(args))):
                        self.defs.setdefault((cinst, i + 1), []).append(('op', args[i], iid, (nid, None)))
            cinst, centry, crets = self._expand(callee, iid, nid, depth + 1, stack, how, binder)
            info['inlined'] = cinst
            info['name'] = callee
            n.succs = [centry]
            for r in crets:
                if tgt is not None:
                    self.nodes[r].succs = [tgt]
            self._def_dest(iid, dest, ('ret', cinst))
            return
        # external (or not inlined) call
        self._def_dest(iid, dest, ('callres', nid))
        if tgt is not None:
            n.succs = [tgt]
        if t.get('glue') and tgt is not None and t['args'] and t['args'][0]['k'] in ('copy', 'move'):
            pl0 = t['args'][0]['pl']
            if t.get('glue_of') == 'pointee':
                pl0 = {'l': pl0['l'], 'p': list(pl0['p']) + ['*']}
            self._do_glue(inst, nid, t['glue'], pl0, depth, stack)
        # closures passed to external higher-order functions
        name = info['name']
        once = any(r.search(name) for r in HOF_ONCE)
        for ai, a in enumerate(t['args']):
            e = self.ev_op(iid, a)
            for c in sorted(self.closures_of(e)):
                if c not in self.facts.fns or c in stack or depth >= self.max_depth:
                    continue
                body = self.facts.fns[c]
                ac = body['arg_count']

                isfn = body['kind'] != 'Closure'

                def binder(cinst, a=a, ac=ac, isfn=isfn):
                    self._memo.clear()
                    if isfn:
                        # a named function used as the callback: no environment parameter
                        for k in range(ac):
                            self.defs.setdefault((cinst, 1 + k), []).append(('hofarg', nid, k))
                        return
                    self.defs.setdefault((cinst, 1), []).append(('op', a, iid, (nid, None)))
                    if once and name.endswith(('dependently_mut', 'dependently')) and ac == 2 and len(t['args']) >= 2:
                        self.defs.setdefault((cinst, 2), []).append(('op', t['args'][1], iid, (nid, None)))
                    else:
                        for k in range(ac - 1):
                            self.defs.setdefault((cinst, 2 + k), []).append(('hofarg', nid, k))
                cinst, centry, crets = self._expand(c, iid, nid, depth + 1, stack, 'hof', binder)
                info['closure_insts'].append(cinst)
                # `(0..N).any(|_| ..)` with a literal, non-empty range: the callback runs at least once
                # (and, being the body of the adaptor's loop, it can run again after it returned)
                if not once and ai == 1 and re.search(r'Iterator::(any|all|for_each|try_for_each|find|position|find_map)$', name):
                    n.succs = [centry] if self._nonempty_range(iid, t['args'][0]) else n.succs + [centry]
                    for r in crets:
                        self.nodes[r].succs = ([tgt] if tgt is not None else []) + [centry]
                    continue
                if once:
                    n.succs = [centry]
                    # result of dependently* is the closure's result
                    self._memo.clear()
                    self.defs[(iid, dest['l'])] = [d for d in self.defs.get((iid, dest['l']), [])
                                                   if d != ('callres', nid)] if not dest['p'] else self.defs.get((iid, dest['l']), [])
                    self._def_dest(iid, dest, ('ret', cinst))
                else:
                    n.succs = n.succs + [centry]
                for r in crets:
                    if tgt is not None:
                        self.nodes[r].succs = [tgt]

    def _nonempty_range(self, iid, op):
        e = self.strip(self.ev_op(iid, op))
        while e[0] in ('ref', 'deref'):
            e = self.strip(e[1])
        if e[0] == 'agg' and e[2].endswith('Range::Range') and len(e[4]) == 2:
            a, b = self.strip(e[4][0]), self.strip(e[4][1])
            try:
                return a[0] == 'c' and b[0] == 'c' and a[1] is not None and b[1] is not None and int(b[1]) > int(a[1])
            except (ValueError, TypeError):
                return False
        return False

    def _tail_call(self, inst, nid):
        """the call's result is the function's result: destination `_0`, and nothing but a return follows"""
        t = self.nodes[nid].term
        d = t['dest']
        if d['l'] != 0 or d['p'] or t['t'] is None:
            return False
        bi, seen = t['t'], set()
        blocks = inst.body['blocks']
        while bi not in seen:
            seen.add(bi)
            b = blocks[bi]
            if any(s_['k'] == 'assign' for s_ in b['stmts']):
                return False
            k = b['term']['k']
            if k == 'ret':
                return True
            if k == 'goto':
                bi = b['term']['t']
                continue
            if k == 'drop' and not b['term'].get('glue'):
                bi = b['term']['t']
                continue
            return False
        return False

    def _tail_recursion(self, inst, nid, callee):
        """a call back to a function that is being expanded, in tail position all the way up to that function and with
        that function's own parameters as arguments: control continues at its entry (a retry loop written as recursion)"""
        t = self.nodes[nid].term
        cur, cn = inst, nid
        while True:
            if not self._tail_call(cur, cn):
                return False
            if cur.fn == callee:
                break
            if cur.parent is None or cur.call_node is None:
                return False
            cn = cur.call_node
            cur = self.insts[cur.parent]
        A = cur
        ac = self.facts.bodies[callee]['arg_count']
        if len(t['args']) != ac:
            return False
        def norm(e):
            e = self.strip(e)
            while e[0] == 'ref' and self.strip(e[1])[0] == 'deref':     # a reborrow `&*p` is p
                e = self.strip(self.strip(e[1])[1])
            return e
        for i in range(ac):
            if norm(self.ev_op(inst.id, t['args'][i])) != norm(self.ev_local(A.id, i + 1)):
                return False
        self.nodes[nid].succs = [A.entry]
        return True

    def _def_dest(self, iid, dest, d):
        self._memo.clear()
        if not dest['p']:
            self.defs.setdefault((iid, dest['l']), []).append(d)
        else:
            self.pdefs.setdefault((iid, dest['l']), []).append((dest['p'], d))

    def _finish(self):
        self._memo.clear()
        self.pruned = self._prune_const_switches()
        self.threaded = 0
        # cloning budget: a value computed once and tested inside a loop at several places would otherwise be
        # threaded through ever larger copies of the loop
        self._thread_budget = 8 * len(self.nodes) + 2000
        for _pass in range(8):
            c = self._thread_jumps()
            c += self._thread_same_discr()
            self.threaded += c
            if c == 0:
                break
        self._relink()
        # flags passed between functions are recognised on the flow-sensitive expressions, i.e. after linking
        for _pass in range(3):
            c = self._thread_flag()
            if c == 0:
                break
            self.threaded += c
            self._relink()

    def _relink(self):
        for n in self.nodes:
            n.preds = []
        for n in self.nodes:
            for s in n.succs:
                self.nodes[s].preds.append(n.id)
        self._reach = None
        self._idom = None
        self._scc = None
        live = self.live()
        self.exits = [n.id for n in self.nodes if n.id in live and n.kind == 'block' and n.inst == self.root_inst and n.term['k'] == 'ret']
        self._members = {}
        for n in self.nodes:
            self._members.setdefault(self.site_of(n.id), []).append(n.id)
        self._live_sites = {self.site_of(n) for n in live}
        self._memo.clear()
        self._rdcache = {}
        self._rd_ready = True

    def site_of(self, nid):
        n = self.nodes[nid]
        return (n.inst, n.bb, n.kind, n.edge[1] if n.edge else None, bool(n.edge and n.edge[1] is None))

    def members(self, nid):
        """all nodes (live or not) sharing the node's site: the original and its threading clones"""
        return self._members.get(self.site_of(nid), [nid])

    def site_live(self, nid):
        return self.site_of(nid) in self._live_sites

    def _prune_const_switches(self):
        """a switchInt whose operand is a compile-time constant after inlining (e.g. the flavour's
        `do_drop()` / `check_ref()`) keeps only the edge that is taken"""
        cnt = 0
        for n in list(self.nodes):
            if n.kind != 'block' or n.term['k'] != 'switch':
                continue
            e = self.strip(self.switch_expr(n.id))
            if e[0] != 'c' or e[1] is None:
                continue
            keep = None
            other = None
            for sid in n.succs:
                sw, v, oth = self.nodes[sid].edge
                if v is None:
                    other = sid
                elif str(v) == str(e[1]):
                    keep = sid
            if keep is None:
                keep = other
            if keep is not None:
                n.succs = [keep]
                cnt += 1
        return cnt

    def _const_origins(self, iid, l, fwd, depth=0):
        """-> (list of (origin node, value str), all_const) for a plain local"""
        if depth > 12 or (iid, l) in fwd:
            return [], False
        fwd.add((iid, l))
        outs = []
        allc = True
        ds = self.defs.get((iid, l))
        if not ds or (iid, l) in self.pdefs:
            return [], False
        for d in ds:
            if d[0] == 'rv':
                rv, nid = d[1], d[3]
                if rv['k'] == 'use' and rv['op']['k'] == 'const' and rv['op'].get('v') is not None:
                    outs.append((nid, str(rv['op']['v'])))
                elif rv['k'] == 'use' and rv['op']['k'] in ('copy', 'move') and not rv['op']['pl']['p']:
                    o, a = self._const_origins(iid, rv['op']['pl']['l'], fwd, depth + 1)
                    outs += o
                    allc = allc and a
                elif rv['k'] == 'un' and rv['op'] == 'Not' and rv['a']['k'] in ('copy', 'move') and not rv['a']['pl']['p'] \
                        and rv['a']['pl'].get('ty') == 'bool':
                    o, a = self._const_origins(iid, rv['a']['pl']['l'], fwd, depth + 1)
                    outs += [(on, '0' if str(v) != '0' else '1') for (on, v) in o]
                    allc = allc and a
                elif rv['k'] == 'bin' and rv['op'] in ('Eq', 'Ne') and all(rv[k_]['k'] in ('copy', 'move') and not rv[k_]['pl']['p'] for k_ in ('a', 'b')):
                    # `discriminant(x) == discriminant(y)` (the derived PartialEq of a payload-free enum): known when one
                    # side is a unit-variant constant and the other side's variant origins are known
                    sides = [self._discr_side(iid, rv[k_]['pl']['l'], fwd, depth + 1) for k_ in ('a', 'b')]
                    cs = [s_ for s_ in sides if s_ and s_[0] == 'const']
                    os_ = [s_ for s_ in sides if s_ and s_[0] == 'origins']
                    if len(cs) == 1 and len(os_) == 1:
                        is_eq = rv['op'] == 'Eq'
                        outs += [(on, '1' if ((str(v) == str(cs[0][1])) == is_eq) else '0') for (on, v) in os_[0][1]]
                    else:
                        allc = False
                elif rv['k'] == 'discr' and not rv['pl']['p']:
                    o, a = self._variant_origins(iid, rv['pl']['l'], fwd, depth + 1)
                    outs += o
                    allc = allc and a
                elif rv['k'] == 'discr':
                    o = self._resolve_variant(iid, rv['pl']['l'], list(rv['pl']['p']), fwd, depth + 1)
                    if o is None:
                        allc = False
                    else:
                        outs += o
                else:
                    allc = False
            elif d[0] == 'ret':
                o, a = self._const_origins(d[1], 0, fwd, depth + 1)
                outs += o
                allc = allc and a
            elif d[0] == 'op':
                # parameter of an inlined instance: the caller's operand
                opd, ciid = d[1], d[2]
                cn = d[-1][0] if isinstance(d[-1], tuple) else None
                if opd['k'] == 'const' and opd.get('v') is not None and cn is not None:
                    outs.append((cn, str(opd['v'])))
                elif opd['k'] in ('copy', 'move') and not opd['pl']['p']:
                    o, a = self._const_origins(ciid, opd['pl']['l'], fwd, depth + 1)
                    outs += o
                    allc = allc and a
                else:
                    allc = False
            elif d[0] == 'callres':
                # pure discriminant predicates of std enums: is_ok / is_err / is_some / is_none
                n = self.nodes[d[1]]
                nm = n.term.get('fn') or ''
                m = PRED_RE.search(nm)
                got = False
                if m and n.term['args']:
                    a0 = n.term['args'][0]
                    if a0['k'] in ('copy', 'move') and not a0['pl']['p']:
                        rd = self.defs.get((n.inst, a0['pl']['l'])) or []
                        if len(rd) == 1 and rd[0][0] == 'rv' and rd[0][1]['k'] == 'ref' and not rd[0][1]['pl']['p']:
                            fwd.add((n.inst, a0['pl']['l']))
                            o, a = self._variant_origins(n.inst, rd[0][1]['pl']['l'], fwd, depth + 1)
                            truth = {'is_ok': '0', 'is_err': '1', 'is_none': '0', 'is_some': '1'}[m.group(1)]
                            outs += [(on, '1' if v == truth else '0') for (on, v) in o]
                            allc = allc and a
                            got = True
                            self._fwd_calls.add(d[1])
                if not got and n.term.get('args') and len(n.term['args']) == 2:
                    # `a == Enum::Unit` / `a != Enum::Unit` on a payload-free enum (PartialEq::eq of the derive): known
                    # when one side is a promoted unit-variant constant and the other side's variant origins are known
                    m2 = re.search(r'cmp::PartialEq(<.*>)?>?::(eq|ne)$', n.term.get('resolved') or nm) or re.search(r'cmp::PartialEq(<.*>)?>?::(eq|ne)$', nm)
                    if m2:
                        sides = [self._ref_variant(n.inst, a_, fwd, depth + 1) for a_ in n.term['args']]
                        cs = [s_ for s_ in sides if s_ and s_[0] == 'const']
                        os_ = [s_ for s_ in sides if s_ and s_[0] == 'origins']
                        if len(cs) == 1 and len(os_) == 1:
                            c_ = cs[0][1]
                            is_eq = m2.group(2) == 'eq'
                            outs += [(on, '1' if ((str(v) == str(c_)) == is_eq) else '0') for (on, v) in os_[0][1]]
                            got = True
                            self._fwd_calls.add(d[1])
                if not got:
                    allc = False
            else:
                allc = False
        return outs, allc

    def _discr_side(self, iid, l, fwd, depth):
        """operand of a discriminant comparison: local l = discriminant(place) -> ('const', v) / ('origins', [..]) / None"""
        ds = self.defs.get((iid, l))
        if not ds or len(ds) != 1 or ds[0][0] != 'rv' or (iid, l) in self.pdefs:
            return None
        rv = ds[0][1]
        if rv['k'] == 'use' and rv['op']['k'] in ('copy', 'move') and not rv['op']['pl']['p']:
            return self._discr_side(iid, rv['op']['pl']['l'], fwd, depth + 1)
        if rv['k'] != 'discr':
            return None
        pl = rv['pl']
        if pl['p'] == ['*']:
            return self._ref_variant(iid, {'k': 'copy', 'pl': {'l': pl['l'], 'p': []}}, fwd, depth + 1)
        o = self._resolve_variant(iid, pl['l'], list(pl['p']), fwd, depth + 1)
        return ('origins', o) if o else None

    def _ref_variant(self, iid, opd, fwd, depth):
        """what a `&Enum` operand points at: ('const', discriminant) for a promoted unit-variant constant,
        ('origins', [(node, discriminant)]) when the referenced place's variant origins are known, else None"""
        if depth > 14 or opd['k'] not in ('copy', 'move') or opd['pl']['p']:
            return None
        ds = self.defs.get((iid, opd['pl']['l']))
        if not ds or len(ds) != 1 or (iid, opd['pl']['l']) in self.pdefs:
            return None
        d = ds[0]
        if d[0] == 'op':
            return self._ref_variant(d[2], d[1], fwd, depth + 1) if d[1]['k'] in ('copy', 'move') else None
        if d[0] != 'rv':
            return None
        rv = d[1]
        if rv['k'] == 'use' and rv['op']['k'] == 'const':
            return ('const', rv['op']['ref_v']) if rv['op'].get('ref_v') is not None else None
        if rv['k'] == 'use' and rv['op']['k'] in ('copy', 'move'):
            return self._ref_variant(iid, rv['op'], fwd, depth + 1)
        if rv['k'] == 'ref' and not rv.get('mut'):
            pl = rv['pl']
            if pl['p'] and pl['p'][0] == '*' and len(pl['p']) == 1:
                # `&*r`: the same referent as r
                return self._ref_variant(iid, {'k': 'copy', 'pl': {'l': pl['l'], 'p': []}}, fwd, depth + 1)
            o = self._resolve_variant(iid, pl['l'], list(pl['p']), fwd, depth + 1)
            if o:
                return ('origins', o)
        return None

    def _resolve_variant(self, iid, l, projs, fwd, depth):
        """origins [(node, discr)] of the enum stored at place `local.projs` when the local is
        assigned whole aggregates (possibly in callees); None if not statically resolvable.
        The origin node is the node that builds the *outermost* aggregate."""
        if depth > 16:
            return None
        fwd.add((iid, l))
        ds = self.defs.get((iid, l))
        if not ds or (iid, l) in self.pdefs:
            return None
        outs = []
        for d in ds:
            if d[0] == 'ret':
                o = self._resolve_variant(d[1], 0, projs, fwd, depth + 1)
                if o is None:
                    return None
                outs += o
            elif d[0] == 'op':
                opd, ciid = d[1], d[2]
                if opd['k'] not in ('copy', 'move'):
                    return None
                pl = opd['pl']
                o = self._resolve_variant(ciid, pl['l'], list(pl['p']) + projs, fwd, depth + 1)
                if o is None:
                    return None
                outs += o
            elif d[0] == 'callres' and IDENTITY_FROM_RE.search(self.nodes[d[1]].term.get('resolved') or '') and \
                    self.nodes[d[1]].term['args'] and self.nodes[d[1]].term['args'][0]['k'] in ('copy', 'move'):
                # `From::from` of a type into itself (applied by `?` to the error value): the value itself
                cn = self.nodes[d[1]]
                pl = cn.term['args'][0]['pl']
                self._fwd_calls.add(d[1]) if hasattr(self, '_fwd_calls') else None
                o = self._resolve_variant(cn.inst, pl['l'], list(pl['p']) + projs, fwd, depth + 1)
                if o is None:
                    return None
                outs += o
            elif d[0] == 'rv':
                rv, nid = d[1], d[3]
                if rv['k'] == 'use' and rv['op']['k'] in ('copy', 'move'):
                    pl = rv['op']['pl']
                    o = self._resolve_variant(iid, pl['l'], list(pl['p']) + projs, fwd, depth + 1)
                    if o is None:
                        return None
                    outs += o
                elif rv['k'] == 'ref' and not rv.get('mut') and projs and projs[0] == '*':
                    # `&place` read back through a deref: the place itself (shared borrow: no write through it)
                    pl = rv['pl']
                    o = self._resolve_variant(iid, pl['l'], list(pl['p']) + projs[1:], fwd, depth + 1)
                    if o is None:
                        return None
                    outs += o
                elif rv['k'] == 'agg':
                    r = self._agg_path(iid, rv, projs, fwd, depth)
                    if r is None:
                        return None
                    if isinstance(r, tuple) and r[0] == 'multi':
                        outs += r[1]
                    elif r != 'infeasible':
                        outs.append((nid, r))
                else:
                    return None
            else:
                return None
        return outs

    def _agg_path(self, iid, rv, projs, fwd, depth):
        """follow projs into aggregate rv -> discriminant string, 'infeasible', or None"""
        if not projs:
            if rv['ak'] == 'adt' and rv.get('discr') is not None:
                return str(rv['discr'])
            return None
        q = projs[0]
        rest = projs[1:]
        if isinstance(q, dict) and 'downcast' in q:
            if rv['ak'] != 'adt':
                return None
            if rv['variant'] != q['downcast']:
                return 'infeasible'
            return self._agg_path(iid, rv, rest, fwd, depth)
        if isinstance(q, dict) and 'i' in q:
            idx = q['i']
            if rv['ak'] == 'adt' and q.get('f') is not None and q['f'] in rv.get('fields', []):
                idx = rv['fields'].index(q['f'])
            if idx >= len(rv['ops']):
                return None
            o = rv['ops'][idx]
            if o['k'] == 'const':
                return None
            if o['k'] not in ('copy', 'move'):
                return None
            pl = o['pl']
            r = self._resolve_variant(iid, pl['l'], list(pl['p']) + rest, fwd, depth + 1)
            if r is None or not r:
                return None
            if len({v for (_, v) in r}) != 1:
                # the field holds different variants on different paths: the origins are the nodes that built the
                # inner values (this aggregate is built at one node for all of them)
                return ('multi', r)
            return r[0][1]
        return None

    def _variant_origins(self, iid, l, fwd, depth):
        if depth > 12 or (iid, l) in fwd:
            return [], False
        fwd.add((iid, l))
        outs = []
        allc = True
        ds = self.defs.get((iid, l))
        if not ds or (iid, l) in self.pdefs:
            return [], False
        for d in ds:
            if d[0] == 'rv':
                rv, nid = d[1], d[3]
                if rv['k'] == 'agg' and rv['ak'] == 'adt' and rv.get('discr') is not None:
                    outs.append((nid, str(rv['discr'])))
                elif rv['k'] == 'use' and rv['op']['k'] in ('copy', 'move') and not rv['op']['pl']['p']:
                    o, a = self._variant_origins(iid, rv['op']['pl']['l'], fwd, depth + 1)
                    outs += o
                    allc = allc and a
                elif rv['k'] == 'use' and rv['op']['k'] in ('copy', 'move'):
                    # the enum is taken out of a field of another value (`(phase as Settled).0`)
                    o = self._resolve_variant(iid, rv['op']['pl']['l'], list(rv['op']['pl']['p']), fwd, depth + 1)
                    if o is None:
                        allc = False
                    else:
                        outs += o
                else:
                    allc = False
            elif d[0] == 'ret':
                o, a = self._variant_origins(d[1], 0, fwd, depth + 1)
                outs += o
                allc = allc and a
            elif d[0] == 'op' and d[1]['k'] in ('copy', 'move') and not d[1]['pl']['p']:
                o, a = self._variant_origins(d[2], d[1]['pl']['l'], fwd, depth + 1)
                outs += o
                allc = allc and a
            elif d[0] == 'op' and d[1]['k'] in ('copy', 'move'):
                o = self._resolve_variant(d[2], d[1]['pl']['l'], list(d[1]['pl']['p']), fwd, depth + 1)
                if o is None:
                    allc = False
                else:
                    outs += o
            else:
                allc = False
        return outs, allc

    def _switch_origins(self, sid, bysite):
        """(origins [(node, value of the switch operand)], kills, all origins constant) of the value a switch tests"""
        S = self.nodes[sid]
        op = S.term['op']
        if op['k'] not in ('copy', 'move') or op['pl']['p']:
            return None
        fwd = set()
        self._fwd_calls = set()
        origins, _allc = self._const_origins(S.inst, op['pl']['l'], fwd)
        if not origins:
            return None
        # an origin that was cloned by an earlier threading step lives on in its clones
        origins = [(m, v) for (o, v) in origins for m in (bysite.get(self.site_of(o)) or [])]
        if not origins:
            return None
        onodes = {o for o, _ in origins}
        # definitions of the variables on the way that are neither origins nor mere conveyors of the value
        kills = set()
        for key in fwd:
            for d in self.defs.get(key) or ():
                kn = None
                if d[0] == 'rv':
                    rv = d[1]
                    conv = rv['k'] in ('discr', 'agg', 'ref') or (rv['k'] == 'use' and (rv['op']['k'] != 'const' or rv['op'].get('v') is not None)) \
                        or (rv['k'] == 'un' and rv['op'] == 'Not') or (rv['k'] == 'bin' and rv['op'] in ('Eq', 'Ne'))
                    if not conv:
                        kn = d[3]
                elif d[0] == 'callres' and d[1] not in self._fwd_calls:
                    kn = d[1]
                if kn is not None and kn not in onodes:
                    kills.update(bysite.get(self.site_of(kn)) or [kn])
        return origins, kills, _allc

    def _thread_jumps(self):
        """jump threading: when the value a switchInt tests was assigned a constant / an enum
        variant at node O and O reaches the switch through a chain of single-successor nodes,
        O's path is routed (through clones of the chain) directly to the matching edge.  This is
        the only path-sensitivity for enum/bool results of inlined callees."""
        cnt = 0
        live0 = self.reachable()
        bysite = {}
        for n in self.nodes:
            if n.id in live0:
                bysite.setdefault(self.site_of(n.id), []).append(n.id)
        switches = [n.id for n in self.nodes if n.kind == 'block' and n.term['k'] == 'switch' and len(n.succs) > 1 and n.id in live0]
        for sid in switches:
            S = self.nodes[sid]
            so = self._switch_origins(sid, bysite)
            if so is None:
                continue
            origins, kills, _allc = so
            onodes = {o for o, _ in origins}
            kills.discard(sid)
            edges = {}
            other = None
            for eid in S.succs:
                sw, v, oth = self.nodes[eid].edge
                if v is None:
                    other = eid
                else:
                    edges[str(v)] = eid
            for (o, v) in origins:
                if o == sid:
                    continue
                O = self.nodes[o]
                if not O.succs or len(self.nodes) > self._thread_budget:
                    continue
                tgt = edges.get(v, other)
                if tgt is None:
                    continue
                # the threaded path continues *behind* the edge node: an edge node stands for "this test was evaluated
                # with this outcome", and a path on which the outcome is known without evaluating the test must not
                # count as having passed it (guard rules ask for dominance by edge nodes)
                if len(self.nodes[tgt].succs) == 1:
                    tgt = self.nodes[tgt].succs[0]
                # region between O and the switch: everything reachable from O without passing S, another
                # definition of the tested value (a different constant, or something that is no constant at all)
                stop = {sid} | kills | (onodes - {o})
                region = self.reachable(O.succs, blocked=stop)
                touches = any(sid in self.nodes[r].succs for r in region) or sid in O.succs
                if not touches or len(region) > 400:
                    continue
                # a value assigned once and tested inside a loop: behind the matching edge the same test is reached
                # again with the same origin.  The origin's path is then specialised as a whole - everything it can
                # reach is cloned, and in the clone every arrival at this test continues behind the matching edge -
                # instead of being threaded through one more copy of the loop on every pass.  Only when every definition
                # of the tested value is such a constant: a computed alternative is not among the blockers
                after = self.reachable([tgt], blocked=stop | {o})
                again = _allc and tgt not in stop and tgt != o and any(sid in self.nodes[r].succs for r in after)
                if again:
                    if __import__("os").environ.get("MQ2_TDBG"):
                        print("SPECIALISE", sid, self.where(sid), "origin", o, self.where(o), v, len(region | after), 'onodes', sorted(onodes), 'kills', sorted(kills))
                        # path tgt -> sid
                        prev = {tgt: None}
                        q = [tgt]
                        while q:
                            x_ = q.pop(0)
                            if sid in self.nodes[x_].succs:
                                pth = []
                                while x_ is not None:
                                    pth.append(x_)
                                    x_ = prev[x_]
                                print('   path', [(p_, self.where(p_)) for p_ in reversed(pth)][:60])
                                break
                            for s_ in self.nodes[x_].succs:
                                if s_ not in prev and s_ not in stop and s_ != o:
                                    prev[s_] = x_
                                    q.append(s_)
                    after = self.reachable([tgt], blocked=stop)
                    if len(region | after) > 1500:
                        continue
                    region = region | after
                clone = {}
                for r in region:
                    C = self.nodes[r]
                    N = self._new_node(C.inst, C.fn, C.bb, C.kind)
                    N.stmts, N.term, N.line, N.call, N.edge = C.stmts, C.term, C.line, C.call, C.edge
                    clone[r] = N.id
                if again:
                    tgt = clone[tgt]
                for r in region:
                    C = self.nodes[r]
                    self.nodes[clone[r]].succs = [tgt if s_ == sid else clone.get(s_, s_) for s_ in C.succs]
                O.succs = [tgt if s_ == sid else clone.get(s_, s_) for s_ in O.succs]
                cnt += 1
        return cnt

    def _thread_same_discr(self):
        """the same enum value tested twice inside one function instance (`match r {..}` followed by the drop-flag test
        the compiler adds for `r`, as in the MIR of `Result::err` / `Option::map`): a path that leaves the first test
        on one edge and reaches the second without re-executing the call that produced the value takes the same edge
        there; it is routed (through clones) behind that edge."""
        cnt = 0
        live0 = self.reachable()
        bysite = {}
        for n in self.nodes:
            if n.id in live0:
                bysite.setdefault(self.site_of(n.id), []).append(n.id)
        groups = {}
        for n in self.nodes:
            if n.id not in live0 or n.kind != 'block' or n.term['k'] != 'switch' or len(n.succs) < 2:
                continue
            e = self.strip(self.switch_expr(n.id))
            if e[0] != 'discr':
                continue
            inner = self.strip(e[1])
            if inner[0] != 'call':
                continue
            groups.setdefault((n.inst, inner[1]), []).append(n.id)
        for (iid, cn), sws in groups.items():
            if len({self.site_of(s_) for s_ in sws}) < 2:
                continue
            redo = set(bysite.get(self.site_of(cn)) or [cn])
            for s1 in sws:
                for s2 in sws:
                    if self.site_of(s1) == self.site_of(s2) or len(self.nodes) > self._thread_budget:
                        continue
                    S2 = self.nodes[s2]
                    for e1 in list(self.nodes[s1].succs):
                        E1 = self.nodes[e1]
                        if E1.kind != 'edge' or not E1.succs or E1.edge[1] is None:
                            continue
                        tgt = None
                        for e2 in S2.succs:
                            if self.nodes[e2].kind == 'edge' and self.nodes[e2].edge[1] is not None and str(self.nodes[e2].edge[1]) == str(E1.edge[1]):
                                tgt = e2
                        if tgt is None or len(self.nodes[tgt].succs) != 1:
                            continue
                        tgt = self.nodes[tgt].succs[0]
                        blocked = redo | {s2}
                        start = list(E1.succs)
                        if any(x_ in blocked for x_ in start):
                            continue
                        region = self.reachable(start, blocked=blocked)
                        if not any(s2 in self.nodes[r].succs for r in region) or len(region) > 60:
                            continue
                        clone = {}
                        for r in region:
                            C = self.nodes[r]
                            N = self._new_node(C.inst, C.fn, C.bb, C.kind)
                            N.stmts, N.term, N.line, N.call, N.edge = C.stmts, C.term, C.line, C.call, C.edge
                            clone[r] = N.id
                        for r in region:
                            C = self.nodes[r]
                            self.nodes[clone[r]].succs = [tgt if s_ == s2 else clone.get(s_, s_) for s_ in C.succs]
                        E1.succs = [tgt if s_ == s2 else clone.get(s_, s_) for s_ in E1.succs]
                        cnt += 1
        return cnt

    def _thread_flag(self):
        """a boolean computed in one function and tested both there and, after being returned, by its callers
        (`let park = !check(..); if park { register }; park`): the switches evaluate to the same expression over call
        results.  A path that leaves one test on an edge and reaches a test of the same value in ANOTHER function
        instance without re-executing a call the value depends on takes the corresponding edge there; it is routed
        (through clones) behind that edge.  Runs on the flow-sensitive expressions, i.e. after linking."""
        cnt = 0
        live0 = self.reachable()
        cands = [n for n in self.nodes if n.id in live0 and n.kind == 'block' and n.term['k'] == 'switch' and len(n.succs) > 1
                 and (n.term.get('opty') or {}).get('k') == 'bool']
        if len({n.inst for n in cands}) < 2:
            return 0
        bysite = {}
        for n in self.nodes:
            if n.id in live0:
                bysite.setdefault(self.site_of(n.id), []).append(n.id)
        groups = {}
        for n in cands:
            e = self.strip(self.switch_expr(n.id))
            neg = False
            while e[0] == 'un' and e[1] == 'Not':
                e = self.strip(e[2])
                neg = not neg
            if e[0] == 'phi':
                # constant alternatives are the business of constant threading: what is left is the flag itself
                rest = [a_ for a_ in (self.strip(x_) for x_ in e[1]) if a_[0] != 'c']
                if len(rest) == 1:
                    e = rest[0]
                    while e[0] == 'un' and e[1] == 'Not':
                        e = self.strip(e[2])
                        neg = not neg
            if e[0] != 'bin':
                continue
            try:
                hash(e)
            except TypeError:
                continue
            groups.setdefault(e, []).append((n.id, neg))
        for e, sws in groups.items():
            if len({self.nodes[s_[0]].inst for s_ in sws}) < 2:
                continue
            calls = {s_[1] for s_ in self.deep_walk(e) if s_[0] == 'call'}
            if not calls:
                continue
            redo = set()
            for c_ in calls:
                redo.update(bysite.get(self.site_of(c_)) or [c_])
            for (s1, n1) in sws:
                for (s2, n2) in sws:
                    if self.nodes[s1].inst == self.nodes[s2].inst or len(self.nodes) > self._thread_budget:
                        continue
                    S2 = self.nodes[s2]
                    for e1 in list(self.nodes[s1].succs):
                        E1 = self.nodes[e1]
                        if E1.kind != 'edge' or not E1.succs:
                            continue
                        v1 = E1.edge[1]
                        val = (v1 is None or str(v1) != '0') != n1
                        out2 = val != n2
                        tgt = None
                        for e2 in S2.succs:
                            if self.nodes[e2].kind != 'edge':
                                continue
                            v2 = self.nodes[e2].edge[1]
                            if (v2 is None or str(v2) != '0') == out2:
                                tgt = e2
                        if tgt is None or len(self.nodes[tgt].succs) != 1:
                            continue
                        tgt = self.nodes[tgt].succs[0]
                        blocked = redo | {s2}
                        start = list(E1.succs)
                        if any(x_ in blocked for x_ in start):
                            continue
                        region = self.reachable(start, blocked=blocked)
                        if not any(s2 in self.nodes[r].succs for r in region) or len(region) > 120:
                            continue
                        clone = {}
                        for r in region:
                            C = self.nodes[r]
                            N = self._new_node(C.inst, C.fn, C.bb, C.kind)
                            N.stmts, N.term, N.line, N.call, N.edge = C.stmts, C.term, C.line, C.call, C.edge
                            clone[r] = N.id
                        for r in region:
                            C = self.nodes[r]
                            self.nodes[clone[r]].succs = [tgt if s_ == s2 else clone.get(s_, s_) for s_ in C.succs]
                        E1.succs = [tgt if s_ == s2 else clone.get(s_, s_) for s_ in E1.succs]
                        cnt += 1
        return cnt

    # ------------------------------------------------------------------ provenance
    # ---- reaching definitions (flow sensitivity for locals assigned more than once)
    def _def_site(self, d):
        """(node id, stmt index or None for 'at the end of the node') where a def takes effect"""
        k = d[0]
        if k == 'rv':
            return (d[3], d[4])
        if k == 'callres':
            return (d[1], None)
        if k == 'ret':
            cn = self.insts[d[1]].call_node
            return (cn, None) if cn is not None else None
        return None   # argument bindings: at instance entry

    def _rd(self, key):
        """reaching-definition sets for variable key=(inst, local): dict node -> frozenset(def
        indices) at node entry; None if the variable is not tracked (single definition)"""
        if not self._rd_ready:
            return None
        if key in self._rdcache:
            return self._rdcache[key]
        ds = self.defs.get(key) or []
        res = None
        if len(ds) >= 2 and key not in self.pdefs:
            sites = [self._def_site(d) for d in ds]
            gen = {}      # site key (inst,bb) -> ordered list of (si, def index)
            entry_defs = [i for i, st in enumerate(sites) if st is None]
            for i, st in enumerate(sites):
                if st is None:
                    continue
                n = self.nodes[st[0]]
                gen.setdefault((n.inst, n.bb, n.kind), []).append((10 ** 9 if st[1] is None else st[1], i))
            for v in gen.values():
                v.sort()
            entry_node = self.insts[key[0]].entry
            live = self.live()
            IN = {n: frozenset() for n in live}
            OUT = {n: frozenset() for n in live}
            work = list(live)
            inwork = set(work)
            while work:
                n = work.pop()
                inwork.discard(n)
                N = self.nodes[n]
                acc = set()
                for p_ in N.preds:
                    if p_ in OUT:
                        acc |= OUT[p_]
                if self.site_of(n) == self.site_of(entry_node):
                    acc |= set(entry_defs)
                acc = frozenset(acc)
                IN[n] = acc
                g_ = gen.get((N.inst, N.bb, N.kind)) if N.kind == 'block' else None
                out = frozenset([g_[-1][1]]) if g_ else acc
                if out != OUT[n]:
                    OUT[n] = out
                    for s_ in N.succs:
                        if s_ in live and s_ not in inwork:
                            work.append(s_)
                            inwork.add(s_)
            res = (IN, gen, sites)
        self._rdcache[key] = res
        return res

    def reaching(self, key, at):
        """indices of the defs of variable key reaching program point at=(node, stmt index|None)"""
        rd = self._rd(key)
        if rd is None or at is None or at[0] is None:
            return None
        IN, gen, sites = rd
        nid, si = at
        if nid not in IN:
            # dead original of a threaded node: use a live member of its site
            alts = [m for m in self.members(nid) if m in IN]
            if not alts:
                return None
            acc = set()
            for m in alts:
                acc |= IN[m]
            cur = frozenset(acc)
        else:
            cur = IN[nid]
        N = self.nodes[nid]
        g_ = gen.get((N.inst, N.bb, N.kind)) if N.kind == 'block' else None
        if g_:
            lim = 10 ** 9 + 1 if si is None else si
            for (dsi, di) in g_:
                # a def at statement dsi is visible to uses at later statements; a call's result
                # (dsi = 1e9) is visible only after the node
                if dsi < lim and not (si is None and dsi == 10 ** 9):
                    cur = frozenset([di])
        return cur

    def _rets_reaching(self, cinst, nid):
        """return nodes of inlined instance cinst whose control can arrive at node nid without re-entering the
        instance; None when the instance has a single live return (nothing to distinguish).  Jump threading
        gives an instance several return nodes, each continuing at a different place in the caller."""
        if not self._rd_ready:
            return None
        key = ('rets', cinst, nid)
        if key in self._rdcache:
            return self._rdcache[key]
        live = self.live()
        rets = self._rdcache.get(('retnodes', cinst))
        if rets is None:
            rets = [n.id for n in self.nodes if n.inst == cinst and n.id in live and n.kind == 'block' and n.term['k'] == 'ret']
            self._rdcache[('retnodes', cinst)] = rets
        res = None
        if len(rets) >= 2:
            targets = {m for m in self.members(nid) if m in live} or {nid}
            entry_site = self.site_of(self.insts[cinst].entry)
            out = []
            for r in rets:
                seen = {r}
                st = [r]
                found = False
                while st and not found:
                    n = st.pop()
                    for s_ in self.nodes[n].succs:
                        if s_ in targets:
                            found = True
                            break
                        if s_ in seen or s_ not in live or self.site_of(s_) == entry_site:
                            continue
                        seen.add(s_)
                        st.append(s_)
                if found:
                    out.append(r)
            if out and len(out) < len(rets):
                res = tuple(sorted(out))
        self._rdcache[key] = res
        return res

    def ev_local(self, iid, l, at=None):
        key0 = (iid, l)
        rdset = self.reaching(key0, at) if at is not None else None
        retsel = None
        if at is not None and at[0] is not None and self._rd_ready:
            for d_ in self.defs.get(key0) or ():
                if d_[0] == 'ret':
                    rr = self._rets_reaching(d_[1], at[0])
                    if rr is not None:
                        retsel = (retsel or ()) + ((d_[1], rr),)
        key = (iid, l, rdset, retsel)
        if key in self._memo:
            return self._memo[key]
        if key in self._onstack:
            self._cut += 1
            # the shallowest stack entry a cut below the current evaluation refers to
            if self._onstack[key] < self._cutmin:
                self._cutmin = self._onstack[key]
            return REC
        depth = len(self._onstack)
        self._onstack[key] = depth
        cut0 = self._cut
        cutmin0 = self._cutmin
        self._cutmin = 1 << 30
        ds = self.defs.get(key0)
        if ds and rdset is not None:
            ds = [d for i, d in enumerate(ds) if i in rdset]
        if not ds:
            inst = self.insts[iid]
            if 1 <= l <= inst.body['arg_count']:
                r = ('param', iid, l)
            else:
                r = ('undef', iid, l)
        else:
            alts = []
            rsel = dict(retsel) if retsel else {}
            for d in ds:
                if d[0] == 'ret' and d[1] in rsel:
                    parts = []
                    for r_ in rsel[d[1]]:
                        pe = self.ev_local(d[1], 0, at=(r_, None))
                        for x in (pe[1] if pe[0] == 'phi' else (pe,)):
                            if x is not REC and x not in parts:
                                parts.append(x)
                    e = REC if not parts else (parts[0] if len(parts) == 1 else ('phi', tuple(parts)))
                else:
                    e = self._ev_def(d)
                if e[0] == 'phi':
                    for x in e[1]:
                        if x not in alts:
                            alts.append(x)
                elif e is not REC and e not in alts:
                    alts.append(e)
            if not alts:
                r = REC
            elif len(alts) == 1:
                r = alts[0]
            else:
                r = ('phi', tuple(alts))
        del self._onstack[key]
        # the value is independent of the evaluations in progress above this one when no recursion cut below it refers to
        # one of them (no cut at all, or only cycles closed at or below this entry)
        if self._cut == cut0 or not self._onstack or self._cutmin >= depth:
            self._memo[key] = r
            self._cutmin = cutmin0
        else:
            self._cutmin = min(cutmin0, self._cutmin)
        return r

    def _ev_def(self, d):
        k = d[0]
        if k == 'rv':
            return self.ev_rv(d[2], d[1], d[3], d[4])
        if k == 'op':
            return self.ev_op(d[2], d[1], at=self._call_point(d))
        if k == 'ret':
            return self.ev_local(d[1], 0)
        if k == 'callres':
            return ('call', d[1])
        if k == 'tfld':
            return self.fld(self.ev_op(d[2], d[1], at=self._call_point(d)), {'i': d[3], 'tuple': True})
        if k == 'hofarg':
            return ('hofarg', d[1], d[2])
        return UNKNOWN

    def _call_point(self, d):
        """program point of an argument binding: the end of the call node in the caller"""
        return d[-1] if isinstance(d[-1], tuple) else None

    def ev_op(self, iid, o, at=None):
        k = o['k']
        if k in ('copy', 'move'):
            return self.ev_place(iid, o['pl'], at)
        if k == 'addr':
            # `&mut place` handed to a destructor by the drop glue
            return ('ref', self.ev_place(iid, o['pl'], at))
        if k == 'const':
            if 'fn' in o:
                return ('fnc', o['fn'])
            if o.get('assoc_const') and (o.get('assoc_trait') or '').endswith('multiqueue::QueueRW') and self.flavour:
                # `RW::CONST` in code that is generic over the flavour: the value the flavour's impl gives it
                v_ = (self.facts.flavour_consts.get(self.flavour) or {}).get(o['assoc_const'])
                if v_ is not None:
                    return ('c', v_, None, o.get('ty'))
            if o.get('ref_v') is not None:
                return ('ref', ('c', o['ref_v'], o.get('ref_enumv'), 'enum:' + str(o.get('ref_adt'))))
            return ('c', o.get('v'), o.get('enumv'), o.get('ty'))
        return UNKNOWN

    def ev_place(self, iid, pl, at=None):
        e = self.ev_local(iid, pl['l'], at)
        # partial definitions of this local (e.g. `_8.0 = ...`)
        pd = self.pdefs.get((iid, pl['l']))
        projs = pl['p']
        if pd and projs:
            alts = []
            for (pp, d) in pd:
                if len(pp) <= len(projs) and all(self._same_proj(a, b) for a, b in zip(pp, projs)):
                    x = self._ev_def(d)
                    for q in projs[len(pp):]:
                        x = self.proj(x, q)
                    alts.append(x)
            if alts:
                if e[0] not in ('undef', 'rec'):
                    y = e
                    for q in projs:
                        y = self.proj(y, q)
                    alts.append(y)
                return alts[0] if len(alts) == 1 else ('phi', tuple(alts))
        for q in projs:
            e = self.proj(e, q)
        return e

    @staticmethod
    def _same_proj(a, b):
        if a == '*' or b == '*':
            return a == b
        if 'i' in a and 'i' in b:
            return a['i'] == b['i']
        return a == b

    def proj(self, e, q):
        if q == '*':
            return self.deref(e)
        if 'i' in q:
            return self.fld(e, q)
        if 'downcast' in q:
            return self.downcast(e, q['downcast'])
        if 'idx' in q or 'cidx' in q:
            return ('idx', e)
        return ('opaque', e)

    def deref(self, e):
        if e[0] == 'ref':
            return e[1]
        if e is REC or e[0] == 'rec':
            return REC
        if e[0] == 'phi':
            return self.mkphi([self.deref(x) for x in e[1]])
        return ('deref', e)

    def downcast(self, e, variant):
        if e[0] == 'agg' and e[1] == 'adt':
            if e[2].endswith('::' + variant):
                return e
            return ('never',)
        if e[0] == 'rec':
            return REC
        if e[0] == 'phi':
            alts = [self.downcast(x, variant) for x in e[1]]
            alts = [a for a in alts if a != ('never',)]
            if not alts:
                return ('never',)
            return self.mkphi(alts)
        return ('dc', e, variant)

    def mkphi(self, alts):
        out = []
        for a in alts:
            if a[0] == 'phi':
                for x in a[1]:
                    if x not in out:
                        out.append(x)
            elif a[0] == 'rec':
                continue
            elif a not in out:
                out.append(a)
        if not out:
            return REC
        if len(out) == 1:
            return out[0]
        return ('phi', tuple(out))

    def fld(self, e, q):
        """field projection; q has 'i' and maybe 'adt','f','closure','tuple'"""
        k = e[0]
        if k == 'rec':
            return REC
        if k == 'agg':
            names, ops = e[3], e[4]
            if e[1] == 'adt' and q.get('f') is not None and q['f'] in names:
                return ops[names.index(q['f'])]
            if e[1] in ('tuple', 'closure', 'adt') and q['i'] < len(ops) and not (e[1] == 'adt' and q.get('f') is not None):
                return ops[q['i']]
            if e[1] == 'adt' and q['i'] < len(ops):
                return ops[q['i']]
        if k == 'phi':
            return self.mkphi([self.fld(x, q) for x in e[1]])
        if k in ('ref', 'deref') and 'closure' in q:
            # closure environments are passed by value or by reference depending on the trait
            inner = e[1]
            if inner[0] in ('agg', 'phi', 'ref', 'deref'):
                return self.fld(inner, q)
        if k == 'dc' and e[1][0] == 'agg':
            return self.fld(e[1], q)
        if k == 'never':
            return e
        if 'adt' in q:
            name = '%s.%s' % (short(q['adt']), q['f'])
            if q.get('v'):
                name = '%s::%s.%s' % (short(q['adt']), q['v'], q['f'])
        elif 'closure' in q:
            name = 'closure.%d' % q['i']
        else:
            name = '%d' % q['i']
        return ('fld', e, name)

    def ev_rv(self, iid, rv, nid=None, si=None):
        k = rv['k']
        at = (nid, si) if nid is not None else None
        if k == 'use':
            return self.ev_op(iid, rv['op'], at)
        if k in ('ref', 'rawptr'):
            return ('ref', self.ev_place(iid, rv['pl'], at))
        if k == 'cast':
            inner = self.ev_op(iid, rv['op'], at)
            ck = rv['ck']
            return ('cast', ck, inner, rv['to']['s'])
        if k == 'bin':
            a_, b_ = self.ev_op(iid, rv['a'], at), self.ev_op(iid, rv['b'], at)
            # masks built from literals (`1 << POS`, `A | B`, e.g. by a const fn) are the literal they evaluate to
            if rv['op'] in ('Shl', 'Shr', 'BitOr', 'BitAnd', 'BitXor', 'ShlUnchecked', 'ShrUnchecked'):
                sa, sb = self.strip(a_), self.strip(b_)
                if sa[0] == 'c' and sb[0] == 'c' and sa[1] is not None and sb[1] is not None and len(sa) > 2 and sa[2] is None and sb[2] is None:
                    try:
                        x_, y_ = int(sa[1]), int(sb[1])
                        op_ = rv['op'].replace('Unchecked', '')
                        v_ = None
                        if op_ == 'Shl' and 0 <= y_ < 64:
                            v_ = (x_ << y_) & ((1 << 64) - 1)
                        elif op_ == 'Shr' and 0 <= y_ < 64 and x_ >= 0:
                            v_ = x_ >> y_
                        elif op_ == 'BitOr' and x_ >= 0 and y_ >= 0:
                            v_ = x_ | y_
                        elif op_ == 'BitAnd' and x_ >= 0 and y_ >= 0:
                            v_ = x_ & y_
                        elif op_ == 'BitXor' and x_ >= 0 and y_ >= 0:
                            v_ = x_ ^ y_
                        if v_ is not None:
                            return ('c', str(v_), None, sa[3] if len(sa) > 3 else None)
                    except (ValueError, TypeError):
                        pass
            return ('bin', rv['op'], a_, b_)
        if k == 'un':
            return ('un', rv['op'], self.ev_op(iid, rv['a'], at))
        if k == 'discr':
            inner = self.ev_place(iid, rv['pl'], at)
            si_ = self.strip(inner)
            if si_[0] == 'c' and si_[1] is not None and len(si_) > 3 and str(si_[3]).startswith('enum:'):
                # discriminant of a unit-variant constant (`&Enum::Variant` promoted out of the function)
                return ('c', si_[1], None, 'isize')
            return ('discr', inner)
        if k == 'agg':
            ops = tuple(self.ev_op(iid, o, at) for o in rv['ops'])
            ak = rv['ak']
            if ak == 'adt':
                return ('agg', 'adt', '%s::%s' % (rv['adt'], rv['variant']), tuple(rv['fields']), ops, (nid, si), rv.get('discr'))
            if ak == 'closure':
                return ('agg', 'closure', rv['closure'], (), ops, (nid, si))
            return ('agg', ak, ak, (), ops, (nid, si))
        if k == 'repeat':
            return ('repeat', self.ev_op(iid, rv['op'], at))
        return UNKNOWN

    def closures_of(self, e, _seen=None):
        """set of closure def paths the value may be (through refs/phis)"""
        out = set()
        if _seen is None:
            _seen = set()
        if id(e) in _seen:
            return out
        _seen.add(id(e))
        k = e[0]
        if k == 'agg' and e[1] == 'closure':
            out.add(e[2])
        elif k == 'fnc':
            out.add(e[1])
        elif k in ('ref', 'deref'):
            out |= self.closures_of(e[1], _seen)
        elif k == 'phi':
            for x in e[1]:
                out |= self.closures_of(x, _seen)
        elif k == 'cast':
            out |= self.closures_of(e[2], _seen)
        return out

    # ------------------------------------------------------------------ expression queries
    def walk(self, e, _seen=None):
        """iterate over all sub-expressions (DAG-aware)"""
        if _seen is None:
            _seen = set()
        stack = [e]
        while stack:
            x = stack.pop()
            if not isinstance(x, tuple) or id(x) in _seen:
                continue
            _seen.add(id(x))
            yield x
            k = x[0]
            if k in ('ref', 'deref', 'discr', 'idx', 'opaque', 'repeat'):
                stack.append(x[1])
            elif k == 'fld' or k == 'dc':
                stack.append(x[1])
            elif k == 'cast':
                stack.append(x[2])
            elif k == 'bin':
                stack.append(x[2]); stack.append(x[3])
            elif k == 'un':
                stack.append(x[2])
            elif k == 'agg':
                stack.extend(x[4])
            elif k == 'phi':
                stack.extend(x[1])

    def deep_walk(self, e):
        """walk that also descends into the arguments of the calls whose results are mentioned"""
        seen = set()
        seen_calls = set()
        todo = [e]
        while todo:
            x = todo.pop()
            for s in self.walk(x, seen):
                yield s
                if s[0] == 'call' and s[1] not in seen_calls:
                    seen_calls.add(s[1])
                    todo.extend(self.call_args(s[1]))

    def call_nodes_in(self, e, deep=True, _depth=0):
        """ids of (non-inlined) call nodes whose result the expression mentions; with
        deep=True also through the arguments of those calls"""
        out = set()
        todo = [e]
        seen_calls = set()
        seen = set()
        while todo:
            x = todo.pop()
            for s in self.walk(x, seen):
                if s[0] == 'call' and s[1] not in seen_calls:
                    seen_calls.add(s[1])
                    out.update(self.members(s[1]))
                    if deep:
                        for a in self.call_args(s[1]):
                            todo.append(a)
        return out

    def call_args(self, nid):
        n = self.nodes[nid]
        return [self.ev_op(n.inst, a, at=(nid, None)) for a in n.term['args']]

    def call_name(self, nid):
        n = self.nodes[nid]
        if n.call is None:
            return None
        nm = n.call.get('resolved') or n.call['name']
        # `p.read()` / `p.write(v)` / `p.drop_in_place()` are the free functions of core::ptr with the same arguments
        m = PTR_METHOD_RE.search(nm)
        if m:
            return 'core::ptr::' + m.group(3)
        return nm

    def strip(self, e):
        """strip casts / copies (`p as *mut T` and the method forms `p.cast()`, `p.cast_mut()`, `p.cast_const()`)"""
        while True:
            if e[0] == 'cast':
                e = e[2]
                continue
            if e[0] == 'call':
                n = self.nodes[e[1]]
                if n.call is not None and n.call['inlined'] is None and (PTR_CAST_RE.search(n.call.get('resolved') or n.call['name'] or '') or
                                                                            IDENTITY_FROM_RE.search(n.call.get('resolved') or '')):
                    a = n.term.get('args') or []
                    if a:
                        e = self.ev_op(n.inst, a[0], at=(e[1], None))
                        continue
            return e

    def locpaths(self, e, _depth=0):
        """abstract access paths ('root/Adt.field/...') a pointer-valued expression may denote"""
        if _depth > 60:
            return {'?deep'}
        k = e[0]
        if k in ('ref', 'deref'):
            return self.locpaths(e[1], _depth + 1)
        if k == 'fld':
            return {p + '/' + e[2] for p in self.locpaths(e[1], _depth + 1)}
        if k == 'idx':
            return {p + '[]' for p in self.locpaths(e[1], _depth + 1)}
        if k == 'cast':
            return self.locpaths(e[2], _depth + 1)
        if k == 'dc' or k == 'opaque':
            return self.locpaths(e[1], _depth + 1)
        if k == 'phi':
            out = set()
            for x in e[1]:
                out |= self.locpaths(x, _depth + 1)
            return out
        if k == 'call':
            name = self.call_name(e[1]) or ''
            if TRANSPARENT_RE.search(name):
                args = self.call_args(e[1])
                if args:
                    ps = self.locpaths(args[0], _depth + 1)
                    if OFFSET_RE.search(name):
                        ps = {p + '[]' for p in ps}
                    return ps
            return {'<call:%s>' % short_fn(name)}
        if k == 'param':
            inst = self.insts[e[1]]
            ty = inst.body['locals'][e[2]]['ty']
            adt = ty.get('adt') or (ty.get('inner') or {}).get('adt')
            return {'<%s>' % (short(adt) if adt else ty['s'])}
        if k == 'agg':
            return {'<agg:%s>' % short_fn(e[2])}
        if k == 'hofarg':
            return {'<hofarg>'}
        if k == 'rec':
            return set()
        return {'<%s>' % k}

    # ------------------------------------------------------------------ graph algorithms
    def reachable(self, start=None, blocked=None, fwd=True):
        start = [self.entry] if start is None else (list(start) if isinstance(start, (list, set, tuple, frozenset)) else [start])
        blocked = blocked or ()
        seen = set()
        st = [s for s in start if s not in blocked]
        seen.update(st)
        while st:
            x = st.pop()
            nxt = self.nodes[x].succs if fwd else self.nodes[x].preds
            for s in nxt:
                if s not in seen and s not in blocked:
                    seen.add(s)
                    st.append(s)
        return seen

    def reach_after(self, start, blocked=None):
        """nodes reachable from the successors of start (start itself only if on a cycle)"""
        return self.reachable(self.nodes[start].succs, blocked)

    def live(self):
        if self._reach is None:
            self._reach = self.reachable()
        return self._reach

    def idoms(self):
        if self._idom is not None:
            return self._idom
        live = self.live()
        # reverse postorder
        order = []
        seen = set()
        st = [(self.entry, iter(self.nodes[self.entry].succs))]
        seen.add(self.entry)
        while st:
            x, it = st[-1]
            adv = False
            for s in it:
                if s not in seen:
                    seen.add(s)
                    st.append((s, iter(self.nodes[s].succs)))
                    adv = True
                    break
            if not adv:
                order.append(x)
                st.pop()
        order.reverse()
        rpo = {n: i for i, n in enumerate(order)}
        idom = {self.entry: self.entry}
        changed = True
        while changed:
            changed = False
            for b in order[1:]:
                new = None
                for p in self.nodes[b].preds:
                    if p in idom and p in live:
                        if new is None:
                            new = p
                        else:
                            a, c = p, new
                            while a != c:
                                while rpo[a] > rpo[c]:
                                    a = idom[a]
                                while rpo[c] > rpo[a]:
                                    c = idom[c]
                            new = a
                if new is not None and idom.get(b) != new:
                    idom[b] = new
                    changed = True
        self._idom = idom
        return idom

    def dominates(self, a, b):
        """a dominates b (both live)"""
        idom = self.idoms()
        if b not in idom or a not in idom:
            return False
        x = b
        while True:
            if x == a:
                return True
            p = idom[x]
            if p == x:
                return False
            x = p

    def sccs(self):
        if self._scc is not None:
            return self._scc
        # Tarjan, iterative
        index = {}
        low = {}
        onst = set()
        stack = []
        comp = {}
        counter = [0]
        ncomp = [0]
        for root in self.live():
            if root in index:
                continue
            work = [(root, 0)]
            while work:
                v, pi = work[-1]
                if pi == 0:
                    index[v] = low[v] = counter[0]
                    counter[0] += 1
                    stack.append(v)
                    onst.add(v)
                succs = self.nodes[v].succs
                if pi < len(succs):
                    work[-1] = (v, pi + 1)
                    w = succs[pi]
                    if w not in index:
                        work.append((w, 0))
                    elif w in onst:
                        low[v] = min(low[v], index[w])
                else:
                    if low[v] == index[v]:
                        members = []
                        while True:
                            w = stack.pop()
                            onst.discard(w)
                            members.append(w)
                            if w == v:
                                break
                        for w in members:
                            comp[w] = (ncomp[0], len(members))
                        ncomp[0] += 1
                    work.pop()
                    if work:
                        u = work[-1][0]
                        low[u] = min(low[u], low[v])
        self._scc = comp
        return comp

    def in_cycle(self, nid):
        c = self.sccs().get(nid)
        if c is None:
            return False
        if c[1] > 1:
            return True
        return nid in self.nodes[nid].succs

    def must_pass(self, a, bset, exits=None):
        """every path from (after) node a to an exit passes through a node of bset"""
        exits = set(self.exits if exits is None else exits)
        r = self.reach_after(a, blocked=set(bset))
        return not (r & exits)

    # ------------------------------------------------------------------ convenience
    def call_sites(self, regex, live_only=True):
        r = re.compile(regex) if isinstance(regex, str) else regex
        out = []
        live = self.live()
        for n in self.nodes:
            if n.call is None or (live_only and n.id not in live):
                continue
            nm = self.call_name(n.id) or ''
            if r.search(nm) or r.search(n.call['name']):
                out.append(n.id)
        return out

    def inlined_calls(self, regex):
        """call nodes whose (inlined) callee matches"""
        r = re.compile(regex)
        live = self.live()
        return [n.id for n in self.nodes if n.call and n.call['inlined'] is not None
                and n.id in live and r.search(n.call['name'])]

    def inlined_insts(self, regex):
        """[(node, instance)] of the inlined instances of functions matching regex: called directly (node = the call)
        or handed to an iterator adaptor as its callback (node = the adaptor call)"""
        r = re.compile(regex)
        live = self.live()
        out = []
        for n in self.nodes:
            if n.id not in live or not n.call:
                continue
            if n.call['inlined'] is not None and r.search(n.call['name']):
                out.append((n.id, n.call['inlined']))
            for ci in n.call.get('closure_insts') or ():
                if r.search(self.insts[ci].fn):
                    out.append((n.id, ci))
        return out

    def where(self, nid):
        n = self.nodes[nid]
        f = self.facts.bodies[n.fn]
        if n.fn in self.facts.xfns:
            # a node inside an inlined std helper: report the call site in the crate
            i = n.inst
            while i is not None and self.insts[i].fn in self.facts.xfns:
                cn = self.insts[i].call_node
                i = self.insts[i].parent
                if cn is not None and self.nodes[cn].fn not in self.facts.xfns:
                    return self.where(cn)
        return '%s:%d' % (f['file'], n.line)

    def chain(self, nid):
        """inlining chain root -> ... -> function containing the node"""
        out = []
        i = self.nodes[nid].inst
        while i is not None:
            out.append(short_fn(self.insts[i].fn))
            i = self.insts[i].parent
        return ' > '.join(reversed(out))

    def switch_expr(self, nid):
        n = self.nodes[nid]
        return self.ev_op(n.inst, n.term['op'], at=(nid, None))

    def edge_info(self, eid):
        """(switch node id, value or None, othervalues)"""
        return self.nodes[eid].edge


def short_fn(path):
    """compact, line-free function label"""
    if not path:
        return '?'
    p = re.sub(r'<[^<>]*>', '', path)
    p = re.sub(r'<[^<>]*>', '', p)
    p = p.replace('::::', '::')
    parts = [x for x in p.split('::') if x]
    return '::'.join(parts[-2:]) if len(parts) >= 2 else p


# ----------------------------------------------------------------------------------------
# events
# ----------------------------------------------------------------------------------------

ORD_RANK = {'Relaxed': 0, 'Acquire': 1, 'Release': 1, 'AcqRel': 2, 'SeqCst': 3}


def ordering_of(g, e):
    """set of ordering names an expression may evaluate to"""
    out = set()
    e = g.strip(e)
    k = e[0]
    if k == 'c':
        if e[2]:
            out.add(e[2])
        else:
            out.add('?')
    elif k == 'agg' and 'Ordering::' in e[2]:
        out.add(e[2].split('::')[-1])
    elif k == 'phi':
        for x in e[1]:
            out |= ordering_of(g, x)
    elif k == 'fld':
        out.add('?')
    else:
        out.add('?')
    return out


class AtomicEv:
    __slots__ = ('nid', 'op', 'paths', 'ords', 'name')

    def __init__(self, nid, op, paths, ords, name):
        self.nid = nid
        self.op = op
        self.paths = paths
        self.ords = ords
        self.name = name

    def on(self, *suffixes):
        return any(any(s in p for s in suffixes) for p in self.paths)

    def __repr__(self):
        return 'Atomic(%s %s %s @N%d)' % (self.op, sorted(self.paths), self.ords, self.nid)


def atomic_events(g, live_only=True):
    out = []
    live = g.live()
    for n in g.nodes:
        if n.call is None or n.call['inlined'] is not None:
            continue
        if live_only and not g.site_live(n.id):
            continue
        name = g.call_name(n.id) or ''
        m = ATOMIC_RE.search(name)
        if not m:
            continue
        op = m.group(4)
        args = g.call_args(n.id)
        paths = g.locpaths(args[0]) if args else set()
        ords = []
        for a, raw in zip(args[1:], n.term['args'][1:]):
            ty = raw.get('ty') or (raw.get('pl') or {}).get('ty') or ''
            if 'Ordering' in ty:
                ords.append(ordering_of(g, a))
        out.append(AtomicEv(n.id, op, paths, ords, name))
    return out


def fences(g):
    out = []
    live = g.live()
    for n in g.nodes:
        if n.call is None or n.call['inlined'] is not None or n.id not in live:
            continue
        name = g.call_name(n.id) or ''
        if re.search(r'atomic::(fence|compiler_fence)$', name):
            args = g.call_args(n.id)
            out.append((n.id, ordering_of(g, args[0]) if args else {'?'}, name))
        elif re.search(r'fence_rmw::fence_rmw$', name):
            out.append((n.id, {'SeqCst'}, name))
    return out
